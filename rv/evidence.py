"""evidence/<id>.json writer (validated against /root/.vp/EVIDENCE.schema.json when jsonschema is available)."""

from __future__ import annotations

import json
import os
import sys

VERIF = os.path.realpath(os.path.join(os.path.dirname(__file__), ".."))


def _schema():
    for p in ("/root/.vp/EVIDENCE.schema.json", os.path.join(VERIF, "schemas", "EVIDENCE.schema.json")):
        if os.path.exists(p):
            with open(p) as f:
                return json.load(f)
    return None


def write(prop, tier, seed, meta, agg, errors, known_hit, unlisted, verdict, reasons, wall, nshards, repo, suite):
    from rv import linecov

    anchors = linecov.parse_anchors(prop, VERIF)
    cov = linecov.summarize(repo, anchors, agg["lines_hit"])
    unreached = sorted(n for n, d in cov["mechanisms"].items() if d["executable"] and not d["executed"])
    abst = agg["abstractions"]
    top = sorted(abst.items(), key=lambda kv: -kv[1])[:12]
    samples = agg["samples"][:6] or [{"note": "no sample recorded"}]
    ev = {
        "property_id": prop,
        "tier": tier,
        "seed": seed,
        "level": "exploration",
        "coverage": {
            "evaluations": agg["evaluations"],
            "distinct_nontrivial": len(abst),
            "rule": meta.RULE,
            "samples": samples,
            "exhaustive": False,
            "exhaustive_subspaces": getattr(meta, "EXHAUSTIVE", {}).get(tier, []),
            "trivial_cases": agg["trivial"],
            "verdict": verdict,
            "inconclusive_reasons": reasons,
            "shards": nshards,
            "shards_capped_by_soft_deadline": agg["capped"],
            "shard_errors": [{"shard": e["shard"], "kind": e["kind"]} for e in errors],
            "monitor_counters": dict(sorted(agg["counters"].items())),
            "required_counters": list(getattr(meta, "REQUIRED", [])),
            "guard_band": {"compared": agg["guard_compared"], "skipped": agg["guard_skips"]},
            "most_frequent_abstractions": [{"abstraction": k, "cases": v} for k, v in top],
            "known_findings_met": {k: v for k, v in sorted(known_hit.items())},
            "unlisted_violation_mechanisms": {k: v for k, v in sorted(unlisted.items())},
            "anchor_line_coverage": cov,
            "anchored_mechanisms_with_no_executed_line": unreached,
            "repo_test_suite_under_monitors": (
                {"evaluations": suite["evaluations"], "counters": suite["counters"]} if suite else None
            ),
        },
        "assumptions": list(getattr(meta, "ASSUMPTIONS", [])) + [
            "CPython 3.12 and the prebuilt PyTorch CPU kernels are trusted (used by both implementation and oracle)",
            "only executions produced by the stated generators are decided; CPU only, no autograd",
        ],
        "wall_s": round(wall, 2),
        "violations": int(sum(unlisted.values())),
    }
    sch = _schema()
    if sch is not None:
        deps = os.path.join(VERIF, ".deps")
        if os.path.isdir(deps) and deps not in sys.path:
            sys.path.append(deps)
        try:
            import jsonschema

            jsonschema.validate(ev, sch)
        except ImportError:
            pass
    os.makedirs(os.path.join(VERIF, "evidence"), exist_ok=True)
    path = os.path.join(VERIF, "evidence", f"{prop}.json")
    tmp = path + ".tmp"
    with open(tmp, "w") as f:
        json.dump(ev, f, indent=1, sort_keys=False)
        f.write("\n")
    os.replace(tmp, path)
    return path
