"""Trainer harness + spike-time oracles shared by C08, C09, C11, C12, C15, C18.

Harness:  Serial(connection, ExactNeuron) - presynaptic spikes are the layer input, postsynaptic
spikes are imposed with neuron_kwargs={"override": ...} - so both spike histories are inputs of the
experiment.  Oracle: per-synapse expected potentiating / depressing parts computed in float64 from
the recorded spike times only (explicit sums over spike times, F.unfold geometry for conv cells).
"""

from __future__ import annotations

import math

import numpy as np
import torch
import torch.nn.functional as F

import inferno
from inferno import learn, neural
from inferno import functional as inff
from inferno.extra import ExactNeuron

from rv import factory as fac

TRAINERS = ["STDP", "TripletSTDP", "MSTDP", "MSTDPET", "KernelSTDP", "DelayAdjustedSTDP", "DelayAdjustedSTDPD",
            "DelayAdjustedKernelSTDP", "DelayAdjustedKernelSTDPD", "DelayAdjustedMSTDP", "DelayAdjustedMSTDPD",
            "StableSTDP", "StableTripletSTDP"]
NEEDS_DELAY = {"DelayAdjustedSTDP", "DelayAdjustedSTDPD", "DelayAdjustedKernelSTDP", "DelayAdjustedKernelSTDPD",
               "DelayAdjustedMSTDP", "DelayAdjustedMSTDPD"}
LEARNS_DELAY = {"DelayAdjustedSTDPD", "DelayAdjustedKernelSTDPD", "DelayAdjustedMSTDPD"}
THREE_FACTOR = {"MSTDP", "MSTDPET", "DelayAdjustedMSTDP", "DelayAdjustedMSTDPD"}
HAS_DELAYED_FLAG = {"STDP", "TripletSTDP", "MSTDP", "KernelSTDP", "StableSTDP", "StableTripletSTDP"}
# the two "stable" pair / triplet trainers (same file, same documented rule, not in the default exports: unit-amplitude traces
# scaled by the learning rate afterwards) are held to the rule of their exported siblings
RULE = {"StableSTDP": "STDP", "StableTripletSTDP": "TripletSTDP"}


def trainer_class(name):
    cls = getattr(learn, name, None)
    if cls is None:
        from inferno.learn.trainers import two_factor_stdp

        cls = getattr(two_factor_stdp, name)
    return cls

DEFAULT_HYPER = {"lr_a": 0.8, "lr_b": -0.5, "tc_a": 7.0, "tc_b": 11.0, "lr_a3": 0.3, "lr_b3": 0.2, "tc_a_slow": 30.0,
                 "tc_b_slow": 40.0, "tc_elig": 15.0, "trace_mode": "cumulative", "delayed": False}


OSC = 0.9   # rad / ms


def osc_post_kernel(diff, learning_rate, time_constant, **kwargs):
    """a user-supplied half kernel whose sign changes with the time difference (damped oscillation), causal half"""
    return torch.exp(diff.abs() / (-time_constant)) * torch.cos(diff * OSC) * (learning_rate * (diff >= 0).to(dtype=diff.dtype))


def osc_pre_kernel(diff, learning_rate, time_constant, **kwargs):
    """anti-causal half of the damped-oscillation kernel"""
    return torch.exp(diff.abs() / (-time_constant)) * torch.cos(diff * OSC) * (learning_rate * (diff < 0).to(dtype=diff.dtype))


def _tensorize(kw, which):
    """kernel hyper-parameters as 0-dim tensors (documented: stored as buffers on the cell state)"""
    return {k: (torch.tensor(float(v), dtype=torch.float64) if k in which else v) for k, v in kw.items()}


def trainer_args(name, hyper):
    kw = _trainer_args(name, hyper)
    # optional, behaviour-neutral settings (where the trainer documents them): in-place record writes of its reducers and the
    # time tolerance for treating a delay as on the step grid (delays drawn on the grid, or far from it, are unaffected)
    import inspect
    accepted = inspect.signature(trainer_class(name).__init__).parameters
    for k in ("inplace", "interp_tolerance"):
        if k in hyper and k in accepted:
            kw[k] = hyper[k]
    return kw


def _trainer_args(name, hyper):
    """-> (positional hyper-parameters as a dict of the documented keyword names, forward-less)"""
    name = RULE.get(name, name)
    h = {**DEFAULT_HYPER, **hyper}
    a, b, ta, tb = h["lr_a"], h["lr_b"], h["tc_a"], h["tc_b"]
    if name in ("STDP", "MSTDP"):
        return {"lr_post": a, "lr_pre": b, "tc_post": ta, "tc_pre": tb, "delayed": h["delayed"], "trace_mode": h["trace_mode"]}
    if name == "TripletSTDP":
        return {"lr_post_pair": a, "lr_post_triplet": h["lr_a3"], "lr_pre_pair": b, "lr_pre_triplet": h["lr_b3"],
                "tc_post_fast": ta, "tc_post_slow": h["tc_a_slow"], "tc_pre_fast": tb, "tc_pre_slow": h["tc_b_slow"],
                "delayed": h["delayed"], "trace_mode": h["trace_mode"]}
    if name == "MSTDPET":
        return {"lr_post": a, "lr_pre": b, "tc_post": ta, "tc_pre": tb, "tc_eligibility": h["tc_elig"], "trace_mode": h["trace_mode"]}
    if name in ("KernelSTDP", "DelayAdjustedKernelSTDP", "DelayAdjustedKernelSTDPD"):
        tk = h.get("tensor_kwargs", ())
        osc = h.get("kernel") == "osc"
        kw = {"kernel_post": osc_post_kernel if osc else inff.exp_stdp_post_kernel,
              "kernel_pre": osc_pre_kernel if osc else inff.exp_stdp_pre_kernel,
              "kernel_post_kwargs": _tensorize({"learning_rate": a, "time_constant": ta}, [k[5:] for k in tk if k.startswith("post_")]),
              "kernel_pre_kwargs": _tensorize({"learning_rate": b, "time_constant": tb}, [k[4:] for k in tk if k.startswith("pre_")])}
        if name == "KernelSTDP":
            kw["delayed"] = h["delayed"]
        return kw
    if name in ("DelayAdjustedSTDP", "DelayAdjustedMSTDP"):      # a: causal (pos) branch, b: anti-causal (neg) branch
        return {"lr_pos": a, "lr_neg": b, "tc_pos": ta, "tc_neg": tb}
    if name in ("DelayAdjustedSTDPD", "DelayAdjustedMSTDPD"):    # a: causal branch rate (eta_-), b: anti-causal branch rate (eta_+)
        return {"lr_neg": a, "lr_pos": b, "tc_neg": ta, "tc_pos": tb}
    raise ValueError(name)


_DUMMY = {"lr_a": 0.123, "lr_b": 0.077, "tc_a": 3.0, "tc_b": 4.0, "lr_a3": 0.05, "lr_b3": 0.05, "tc_a_slow": 9.0, "tc_b_slow": 9.5,
          "tc_elig": 5.0, "trace_mode": "cumulative", "delayed": False}


def build_trainer(name, hyper, batch_reduction, per_cell=False, default_reduction=torch.mean):
    """per_cell=True: the trainer is constructed with unrelated defaults; the real hyper-parameters are meant to be passed
    to register_cell (documented: constructor arguments can be overridden on a cell-by-cell basis)"""
    kw = trainer_args(name, _DUMMY if per_cell else hyper)
    return trainer_class(name)(**kw, batch_reduction=(default_reduction if per_cell else batch_reduction))


def none_reduction(name):
    """what a per-cell batch_reduction=None is documented to mean: torch.sum for the reward-modulated rules, torch.mean elsewhere"""
    return torch.sum if name in THREE_FACTOR else torch.mean


class Harness:
    def __init__(self, trainer, conn_kind, dt=1.0, B=1, delay_steps=None, seed=0, batch_reduction=torch.sum, hyper=None,
                 dtype=None, syn="delta", max_delay_steps=None, per_cell=False, online=False):
        self.name, self.kind, self.dt, self.B = trainer, conn_kind, dt, B
        # (MSTDPET registers its eligibility monitors with prepend=False, after the traces they read: it cannot be stepped from
        # an earlier hook of the same layer, by construction - the online mode is not applied to it)
        self.online = online = bool(online) and trainer != "MSTDPET"
        self.hyper = {**DEFAULT_HYPER, **(hyper or {})}
        if trainer in NEEDS_DELAY and delay_steps is None:
            delay_steps = 2
        self.delay_steps = delay_steps
        self.K = max_delay_steps if max_delay_steps is not None else delay_steps
        delay = None if delay_steps is None else self.K * dt
        g = torch.Generator().manual_seed(seed)
        self.conn = fac.make_connection(conn_kind, dt, syn=syn, B=B, delay=delay, nin=3, nout=2, conv=(4, 4, 2, 2, 2))   # two input channels: the receptive axis order matters
        fac.randomize(self.conn, g, delay_steps=delay_steps, dt=dt)
        self.neuron = ExactNeuron(self.conn.outshape, dt, rest_v=-60.0, thresh_v=-50.0, batch_size=B)
        self.layer = neural.Serial(self.conn, self.neuron)
        self.conn.updater = self.conn.defaultupdater()
        # a cell registered with batch_reduction=None gets the documented fallback of its trainer class - not the trainer's own
        # configured reduction (here: amax)
        self.cell_reduction_none = bool(per_cell) and batch_reduction is none_reduction(trainer)
        self.trainer = build_trainer(trainer, self.hyper, batch_reduction, per_cell=per_cell,
                                     default_reduction=(torch.amax if self.cell_reduction_none else torch.mean))
        if online:
            # online learning: the trainer is stepped from a forward hook of the layer that was there BEFORE the cell was
            # registered; the trainers register their monitors with prepend=True so that they have recorded the step by then
            self._next = (None, 1.0)
            self.layer.register_forward_hook(lambda m, a, o: self._call_trainer(*self._next))
        if per_cell:
            self.trainer.register_cell("c", self.layer.cell, batch_reduction=(None if self.cell_reduction_none else batch_reduction),
                                       **trainer_args(trainer, self.hyper))
        else:
            self.trainer.register_cell("c", self.layer.cell)
        if dtype is not None:
            self.layer.to(dtype)
            self.trainer.to(dtype)
        self.param = "delay" if trainer in LEARNS_DELAY else "weight"

    def forward_only(self, pre, post):
        self.layer(pre, neuron_kwargs={"override": post})

    def call_trainer(self, reward=None, scale=1.0):
        if not self.online:
            self._call_trainer(reward, scale)

    def _call_trainer(self, reward=None, scale=1.0):
        if self.name in THREE_FACTOR:
            self.trainer(reward, scale)
        else:
            self.trainer()

    def parts(self):
        acc = getattr(self.conn.updater, self.param)
        p, n = acc.pos, acc.neg
        ref = getattr(self.conn, self.param)
        z = torch.zeros_like(ref)
        return (z if p is None else p.detach().clone()), (z if n is None else n.detach().clone())

    def step_parts(self, pre, post, reward=None, scale=1.0):
        """one layer step + trainer call; returns the reduced (pos, neg) parts and discards them"""
        self._next = (reward, scale)
        self.forward_only(pre, post)
        self.call_trainer(reward, scale)
        p, n = self.parts()
        self.conn.updater.clear()
        return p, n

    def step_apply(self, pre, post, reward=None, scale=1.0, apply=True):
        """one layer step + trainer call + update; returns (pos, neg, parameter difference).  apply=False: the pending
        parts are read (as a logger would) but left to accumulate until a later call applies them"""
        self._next = (reward, scale)
        self.forward_only(pre, post)
        self.call_trainer(reward, scale)
        p, n = self.parts()
        before = getattr(self.conn, self.param).detach().clone()
        if apply:
            self.conn.update()
        return p, n, getattr(self.conn, self.param).detach().clone() - before


class MultiHarness:
    """two cells that share ONE postsynaptic neuron group (Biclique: c0, c1 -> n0), registered in ONE trainer with
    per-cell hyper-parameter overrides: the trainer's monitor pool may share monitors between the cells only where
    that is observationally equivalent"""

    def __init__(self, trainer, dt=1.0, B=1, delay_steps=None, seed=0, batch_reduction=torch.sum, hypers=None, dtype=None,
                 topology="fan_in"):
        self.name, self.dt, self.B, self.topology = trainer, dt, B, topology
        self.apply_via = "connection"
        self.hypers = [{**DEFAULT_HYPER, **h} for h in hypers]
        if trainer in NEEDS_DELAY and delay_steps is None:
            delay_steps = 2
        delay = None if delay_steps is None else 3 * dt
        g = torch.Generator().manual_seed(seed)
        nconn = 1 if topology == "fan_out" else 2
        self.conns = [fac.make_connection("dense", dt, syn="delta", B=B, delay=delay, nin=3, nout=2) for _ in range(nconn)]
        for c in self.conns:
            fac.randomize(c, g, delay_steps=delay_steps, dt=dt)
            c.updater = c.defaultupdater()
        nneur = {"fan_in": 1, "fan_out": 2, "two_layers": 2}[topology]
        self.neurons = [ExactNeuron((2,), dt, rest_v=-60.0, thresh_v=-50.0, batch_size=B) for _ in range(nneur)]
        self.neuron = self.neurons[0]
        self.trainer = build_trainer(trainer, {}, batch_reduction, per_cell=True)
        if topology == "two_layers":
            # two independent layers trained by ONE trainer: each can be put in eval mode on its own
            self.layers = [neural.Serial(self.conns[i], self.neurons[i]) for i in range(2)]
            self.layer = None
            cells = [ly.cell for ly in self.layers]
        else:
            self.layer = neural.Biclique([(f"c{i}", c) for i, c in enumerate(self.conns)],
                                         [(f"n{i}", n) for i, n in enumerate(self.neurons)], combine="sum")
            # fan_in: cells (c0, n0), (c1, n0) share the postsynaptic group; fan_out: cells (c0, n0), (c0, n1) share the
            # connection (its synapse-side monitors and its updater)
            self.cellkeys = [("c0", "n0"), ("c1", "n0")] if topology == "fan_in" else [("c0", "n0"), ("c0", "n1")]
            cells = [self.layer.get_cell(*k) for k in self.cellkeys]
        for i, nm in enumerate(("a", "b")):
            self.trainer.register_cell(nm, cells[i], batch_reduction=batch_reduction, **trainer_args(trainer, self.hypers[i]))
        if dtype is not None:
            for ly in ([self.layer] if self.layer is not None else self.layers):
                ly.to(dtype)
            self.trainer.to(dtype)
        self.param = "delay" if trainer in LEARNS_DELAY else "weight"

    def step_apply(self, pres, posts, reward=None, scale=1.0, cells=None):
        """pres / posts: one spike tensor per connection / neuron group -> one (pos, neg, applied change) per connection;
        cells: names of the cells this trainer call is limited to (three-factor trainers' documented `cells` argument)"""
        if not isinstance(posts, (list, tuple)):
            posts = [posts]
        if self.layer is None:
            for ly, p, q in zip(self.layers, pres, posts):
                ly(p, neuron_kwargs={"override": q})
        else:
            self.layer({f"c{i}": (p,) for i, p in enumerate(pres)},
                       neuron_kwargs={f"n{i}": {"override": q} for i, q in enumerate(posts)})
        if self.name in THREE_FACTOR:
            if cells is None:
                self.trainer(reward, scale)
            else:
                self.trainer(reward, scale, cells=cells)
        else:
            self.trainer()
        out, befores = [], []
        for c in self.conns:
            acc = getattr(c.updater, self.param)
            ref = getattr(c, self.param)
            z = torch.zeros_like(ref)
            p, n = acc.pos, acc.neg
            p, n = (z if p is None else p.detach().clone()), (z if n is None else n.detach().clone())
            befores.append(ref.detach().clone())
            if self.apply_via != "trainer":
                c.update()
            out.append([p, n, None])
        if self.apply_via == "trainer":
            # documented: applies every cell's updater, each once, even if it serves several cells; it does not discard the
            # applied parts (Connection.update does that): cleared by hand, as a training loop using this form has to
            self.trainer.update()
            for c in self.conns:
                c.updater.clear()
        for c, o, b in zip(self.conns, out, befores):
            o[2] = getattr(c, self.param).detach().clone() - b
        return [tuple(o) for o in out]


# ------------------------------------------------------------------------------------------
# oracle
# ------------------------------------------------------------------------------------------

def _expand(kind, conn, pre, post):
    """spike tensors -> (B, *W, R) float64 arrays aligned with the weight (receptive axis last)"""
    pre = pre.detach().to(torch.float64)
    post = post.detach().to(torch.float64)
    B = pre.shape[0]
    if kind in ("dense", "lateral"):
        pf, qf = pre.reshape(B, -1), post.reshape(B, -1)
        O, I = qf.shape[1], pf.shape[1]
        return (pf[:, None, :, None].expand(B, O, I, 1).numpy().copy(), qf[:, :, None, None].expand(B, O, I, 1).numpy().copy())
    if kind == "direct":
        pf, qf = pre.reshape(B, -1), post.reshape(B, -1)
        return pf[:, :, None].numpy().copy(), qf[:, :, None].numpy().copy()
    Fn, C, kh, kw = conn.weight.shape
    un = F.unfold(pre, conn.kernel, dilation=conn.dilation, padding=conn.padding, stride=conn.stride)   # B, C*kh*kw, L
    L = un.shape[-1]
    pe = un.reshape(B, 1, C, kh, kw, L).expand(B, Fn, C, kh, kw, L)
    qe = post.reshape(B, Fn, 1, 1, 1, L).expand(B, Fn, C, kh, kw, L)
    return pe.numpy().copy(), qe.numpy().copy()


def _reduce(name, arr):
    """batch reduction of per-sample magnitudes (axis 0)"""
    if name == "sum":
        return arr.sum(0)
    if name == "mean":
        return arr.mean(0)
    if name == "amax":
        return arr.max(0)
    raise ValueError(name)


class Oracle:
    """expected (pos, neg) parts per step, from spike times only"""

    def __init__(self, trainer, kind, conn, dt, hyper=None, reduction="sum"):
        self.name, self.kind, self.conn, self.dt = RULE.get(trainer, trainer), kind, conn, dt
        self.h = {**DEFAULT_HYPER, **(hyper or {})}
        self.red = reduction
        self.pre_raw, self.pre_arr, self.post = [], [], []
        self.zpost = self.zpre = None
        self.near_tie = False
        self.t = -1

    # ---- spike-time primitives (explicit sums over recorded spike times) ------------------------------------------------
    def _trace(self, hist, tau, teff):
        """trace at per-element effective step `teff` (int array) of unit amplitude"""
        mode = self.h["trace_mode"]
        out = np.zeros_like(hist[0])
        last = np.full(hist[0].shape, -1, dtype=np.int64)
        for s in range(len(hist)):
            ok = (s <= teff) & (hist[s] > 0)
            if mode == "cumulative":
                out = out + np.where(ok, np.exp(-(teff - s) * self.dt / tau), 0.0)
            else:
                last = np.where(ok, s, last)
        if mode != "cumulative":
            out = np.where(last >= 0, np.exp(-(teff - last) * self.dt / tau), 0.0)
        return out

    def _spike_at(self, hist, teff):
        out = np.zeros_like(hist[0])
        for s in range(len(hist)):
            out = np.where(teff == s, hist[s], out)
        return out

    def _elapsed(self, hist, teff):
        """time since the most recent spike at effective step teff (NaN when none yet)"""
        last = np.full(hist[0].shape, -1, dtype=np.int64)
        for s in range(len(hist)):
            last = np.where((s <= teff) & (hist[s] > 0), s, last)
        return np.where(last >= 0, (teff - last) * self.dt, np.nan)

    def _elapsed_real(self, hist, tq):
        """time since the most recent spike as of the real-valued query time tq (ms; spikes happen at s * dt): a spike at a
        step later than tq has not happened yet for this observer (NaN when none yet)"""
        last = np.full(hist[0].shape, -1, dtype=np.int64)
        for s in range(len(hist)):
            last = np.where((s * self.dt <= tq + 1e-9) & (hist[s] > 0), s, last)
        return np.where(last >= 0, np.maximum(tq - last * self.dt, 0.0), np.nan)

    # ---- one step ---------------------------------------------------------------------------------------------------------------------
    def step(self, pre, post, delays=None, reward=None, scale=1.0):
        """pre/post: spike tensors of this step; delays: current delay tensor (weight-shaped, ms) or None.
        returns (pos, neg) float64 arrays of the weight's shape (reduced over the batch)."""
        self.t += 1
        t, dt, h = self.t, self.dt, self.h
        pe, qe = _expand(self.kind, self.conn, pre, post)
        self.pre_raw.append(pe)
        self.post.append(qe)
        W = tuple(self.conn.weight.shape)
        if delays is None:
            dms = np.zeros(W)
        else:
            dms = delays.detach().to(torch.float64).numpy()
        dexp = dms.reshape((1,) + W + (1,))
        ksteps = np.rint(dexp / dt).astype(np.int64)
        tnow = np.full(pe.shape, t, dtype=np.int64)
        teff = np.broadcast_to(t - ksteps, pe.shape)
        arr = self._spike_at(self.pre_raw, teff)
        self.pre_arr.append(arr)
        name = self.name
        a, b, ta, tb = h["lr_a"], h["lr_b"], h["tc_a"], h["tc_b"]

        def pre_view(fn_on_hist, *args):
            """presynaptic quantity seen by the rule: raw history viewed d ago (delayed=True) or arrival history now"""
            if h["delayed"]:
                return fn_on_hist(self.pre_raw, *args, teff)
            return fn_on_hist(self.pre_arr, *args, tnow)

        if name in ("STDP", "MSTDP", "MSTDPET", "TripletSTDP"):
            xa = pre_view(self._trace, tb)               # presynaptic (fast) trace, decays with tc_pre
            ya = self._trace(self.post, ta, tnow)        # postsynaptic (fast) trace, decays with tc_post
            ipre = pre_view(self._spike_at)
            ipost = qe
            if name == "TripletSTDP":
                # slow traces of the TRIGGERING population one step earlier
                yb = self._trace(self.post[:-1], h["tc_a_slow"], tnow - 1) if t > 0 else np.zeros_like(qe)
                if h["delayed"]:
                    xb = self._trace(self.pre_raw, h["tc_b_slow"], teff - 1)
                else:
                    xb = self._trace(self.pre_arr[:-1], h["tc_b_slow"], tnow - 1) if t > 0 else np.zeros_like(pe)
                dpost_b = (ipost * xa * (abs(a) + abs(h["lr_a3"]) * yb)).sum(-1)
                dpre_b = (ipre * ya * (abs(b) + abs(h["lr_b3"]) * xb)).sum(-1)
            else:
                dpost_b = (ipost * abs(a) * xa).sum(-1)   # triggered by post spikes, weighted by the pre trace
                dpre_b = (ipre * abs(b) * ya).sum(-1)     # triggered by pre spikes, weighted by the post trace
            if name == "MSTDPET":
                dec = math.exp(-dt / h["tc_elig"])
                self.zpost = dpost_b / h["tc_elig"] if self.zpost is None else self.zpost * dec + dpost_b / h["tc_elig"]
                self.zpre = dpre_b / h["tc_elig"] if self.zpre is None else self.zpre * dec + dpre_b / h["tc_elig"]
                dpost_b, dpre_b = self.zpost, self.zpre
            if name in ("MSTDP", "MSTDPET"):
                return self._three_factor(dpost_b, dpre_b, a >= 0, b >= 0, reward, scale)
            return self._route(_reduce(self.red, dpost_b), _reduce(self.red, dpre_b), a >= 0, b >= 0)

        if name == "KernelSTDP":
            if h["delayed"]:
                # the raw presynaptic history as it stood one (real-valued, possibly sub-step) delay ago
                tpre = self._elapsed_real(self.pre_raw, np.broadcast_to(t * dt - dexp, pe.shape))
            else:
                tpre = pre_view(self._elapsed)
            tpost = self._elapsed(self.post, tnow)
            td = tpre - tpost
            self._note_tie(td)
            return self._kernel_parts(td, a, b, ta, tb)

        # delay-adjusted family: raw most-recent spike times, adjusted by the delay read THIS step
        tpre = self._elapsed(self.pre_raw, tnow)
        tpost = self._elapsed(self.post, tnow)
        td = tpre - tpost - dexp
        self._note_tie(td)
        if name in ("DelayAdjustedKernelSTDP", "DelayAdjustedKernelSTDPD"):
            return self._kernel_parts(td, a, b, ta, tb)
        with np.errstate(invalid="ignore"):
            causal = np.where(np.isnan(td), 0.0, np.exp(-np.abs(td) / ta) * abs(a) * (td >= 0)).sum(-1)
            anti = np.where(np.isnan(td), 0.0, np.exp(-np.abs(td) / tb) * abs(b) * (td < 0)).sum(-1)
        if name in ("DelayAdjustedSTDP", "DelayAdjustedSTDPD"):
            return self._route(_reduce(self.red, causal), _reduce(self.red, anti), a >= 0, b >= 0)
        return self._three_factor(causal, anti, a >= 0, b >= 0, reward, scale)

    def _route(self, first, second, first_pos, second_pos):
        z = np.zeros_like(first)
        pos = (first if first_pos else z) + (second if second_pos else z)
        neg = (z if first_pos else first) + (z if second_pos else second)
        return pos, neg

    def _note_tie(self, td):
        """the rules are discontinuous at t_delta == 0: with a step time that is not exactly representable the two sides of a
        mathematically simultaneous pair are rounded independently, so such steps are outside what any oracle can decide"""
        with np.errstate(invalid="ignore"):
            self.near_tie = bool(np.any(np.abs(td) < 1e-7)) and not float(self.dt * 1024).is_integer()

    def _kernel_parts(self, td, a, b, ta, tb):
        with np.errstate(invalid="ignore"):
            kp = np.exp(-np.abs(td) / ta) * a * (td >= 0)
            kq = np.exp(-np.abs(td) / tb) * b * (td < 0)
            if self.h.get("kernel") == "osc":
                kp, kq = kp * np.cos(td * OSC), kq * np.cos(td * OSC)
        kp, kq = np.nan_to_num(kp, nan=0.0), np.nan_to_num(kq, nan=0.0)
        pos = _reduce(self.red, np.clip(kp, 0, None).sum(-1)) + _reduce(self.red, np.clip(kq, 0, None).sum(-1))
        neg = -(_reduce(self.red, np.clip(kp, None, 0).sum(-1)) + _reduce(self.red, np.clip(kq, None, 0).sum(-1)))
        return pos, neg

    def _three_factor(self, first_b, second_b, first_pos, second_pos, reward, scale):
        """first_b / second_b: per-sample non-negative magnitudes; reward: float or per-sample tensor"""
        if isinstance(reward, torch.Tensor):
            # documented: the scale is expected to be non-negative and its absolute value is used - direction comes from the signal
            r = reward.detach().to(torch.float64).numpy()
            shp = (-1,) + (1,) * (first_b.ndim - 1)
            mag = np.abs(r * scale).reshape(shp)
            sgn = (r >= 0).reshape(shp)
            f, s = first_b * mag, second_b * mag
            pos = np.where(sgn == first_pos, f, 0.0) + np.where(sgn == second_pos, s, 0.0)
            neg = np.where(sgn != first_pos, f, 0.0) + np.where(sgn != second_pos, s, 0.0)
            # the rule concatenates the selected samples and reduces: for a sum this is the sum over samples
            return pos.sum(0), neg.sum(0)
        r = float(reward)
        f, s = _reduce(self.red, first_b) * abs(r * scale), _reduce(self.red, second_b) * abs(r * scale)
        fp = (first_pos and r >= 0) or ((not first_pos) and r < 0)
        sp = (second_pos and r >= 0) or ((not second_pos) and r < 0)
        if r == 0:
            fp, sp = True, True
        return self._route(f, s, fp, sp)
