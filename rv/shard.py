"""One shard of one property's workload, run in its own process by rv.runner."""

from __future__ import annotations

import argparse
import faulthandler
import importlib
import json
import os
import sys
import traceback


def _bootstrap(repo_root, verif_root):
    # .deps goes AFTER site-packages so it can never shadow a package torch uses
    deps = os.path.join(verif_root, ".deps")
    if os.path.isdir(deps) and deps not in sys.path:
        sys.path.append(deps)
    import torch

    torch.set_num_threads(1)
    import inferno

    got = os.path.realpath(os.path.dirname(inferno.__file__))
    want = os.path.realpath(os.path.join(repo_root, "inferno"))
    if got != want:
        raise SystemExit(f"inferno imported from {got}, wanted {want}")
    return torch, inferno


def main(argv=None):
    ap = argparse.ArgumentParser()
    ap.add_argument("--prop", required=True)
    ap.add_argument("--tier", default="quick")
    ap.add_argument("--seed", type=int, default=0)
    ap.add_argument("--shard", type=int, default=0)
    ap.add_argument("--nshards", type=int, default=1)
    ap.add_argument("--repo", required=True)
    ap.add_argument("--verif", required=True)
    ap.add_argument("--out", required=True)
    ap.add_argument("--soft", type=float, default=600.0)
    ap.add_argument("--replay", default=None)
    ap.add_argument("--suite", action="store_true", help="run the repo's tests under the M-inv monitors")
    a = ap.parse_args(argv)

    faulthandler.enable()
    _bootstrap(a.repo, a.verif)

    from rv.ctx import Ctx, Skip, HarnessError
    from rv import linecov

    mon = importlib.import_module(f"rv.monitors.{a.prop.lower()}")
    ctx = Ctx(a.prop, a.tier, a.seed, a.shard, a.nshards, a.repo, a.soft)
    anchors = linecov.parse_anchors(a.prop, a.verif)
    lc = linecov.LineCov(a.repo, anchors)
    lc.start()
    ac = None
    if os.environ.get("VERIF_ARGCOV"):
        from rv import argcov

        ac = argcov.ArgCov(a.repo, list(anchors))
        ac.start()
    fatal = None
    try:
        if a.replay:
            ctx.replaying = True
            with open(a.replay) as f:
                rp = json.load(f)
            mon.run_case(ctx, rp["descriptor"])
        elif a.suite:
            mon.run_suite(ctx)
        else:
            for desc in mon.generate(ctx):
                if ctx.out_of_time():
                    break
                try:
                    mon.run_case(ctx, desc)
                except Skip:
                    ctx.count("skipped_cases")
                except HarnessError as e:
                    fatal = "harness error: " + str(e)[:3000]
                    break
                except Exception as e:  # noqa: BLE001  harness error or unguarded in-domain exception
                    sig = ctx.exc_signature(e, "case")
                    if sig.startswith("exception.") and "@outside-inferno" in sig:
                        # an error inside the harness itself: never a verdict on the repository
                        fatal = "harness error: " + "".join(
                            traceback.format_exception(type(e), e, e.__traceback__)
                        )[-3000:]
                        break
                    ctx.violation(
                        sig,
                        f"unguarded exception {type(e).__name__}: {str(e)[:200]}",
                        desc,
                        {"traceback_tail": "".join(traceback.format_exception(type(e), e, e.__traceback__))[-1500:]},
                    )
            fin = getattr(mon, "finish", None)
            if fin is not None:
                fin(ctx)
    finally:
        lc.stop()
        if ac is not None:
            ac.stop()
            with open(a.out + ".argcov", "w") as f:
                json.dump(ac.result(), f)
    res = ctx.result()
    res["lines_hit"] = lc.result()
    res["fatal"] = fatal
    res["shard"] = a.shard
    tmp = a.out + ".tmp"
    with open(tmp, "w") as f:
        json.dump(res, f)
    os.replace(tmp, a.out)
    return 0


if __name__ == "__main__":
    sys.exit(main())
