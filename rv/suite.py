"""Second workload (thorough tier): the repository's own tests run in-process under the model-free invariants.

A monitor's run_suite(ctx) installs its record-only invariants and calls run_tests(); whatever the invariants
recorded while the tests exercised the library is then turned into violations by the monitor.  Test outcomes
themselves are not judged here (that is the baseline's job)."""

from __future__ import annotations

import os
import sys


def run_tests(ctx, select=None):
    import pytest

    root = ctx.repo_root
    old = os.getcwd()
    os.chdir(root)
    try:
        args = ["-q", "-p", "no:cacheprovider", "-x" if False else "-q", "--timeout=900", "--no-header", "-W", "ignore"]
        args += [os.path.join(root, "test", s) for s in (select or [""])]
        rc = pytest.main(args)
    finally:
        os.chdir(old)
    ctx.count("suite_pytest_exit_" + str(int(rc)))
    return rc
