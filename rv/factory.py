"""Descriptor-driven construction of inferno components (shared by the relational monitors).

Twins are always built by running the constructor again from the same descriptor and copying
parameter VALUES across (copy.deepcopy aliases the original's ShapedTensor owners).
"""

from __future__ import annotations

import torch

from inferno import neural

NEURON_DEFAULTS = {
    "LIF": dict(rest_v=-60.0, reset_v=-65.0, thresh_v=-50.0, refrac_t=2.0, time_constant=20.0, resistance=1.0),
    "GLIF1": dict(rest_v=-60.0, reset_v=-65.0, thresh_v=-50.0, refrac_t=2.0, time_constant=20.0, resistance=1.0),
    "ALIF": dict(rest_v=-60.0, reset_v=-65.0, thresh_eq_v=-50.0, refrac_t=2.0, tc_membrane=20.0,
                 tc_adaptation=[50.0, 10.0], spike_increment=[1.0, 3.0], resistance=1.0),
    "GLIF2": dict(rest_v=-60.0, reset_v_add=2.0, reset_v_mul=0.2, thresh_eq_v=-50.0, refrac_t=2.0, tc_membrane=20.0,
                  rc_adaptation=[0.02, 0.1], spike_increment=[1.0, 3.0], resistance=1.0),
    "QIF": dict(rest_v=-60.0, crit_v=-50.0, affinity=0.04, reset_v=-65.0, thresh_v=-30.0, refrac_t=2.0,
                time_constant=10.0, resistance=1.0),
    "Izhikevich": dict(rest_v=-60.0, crit_v=-50.0, affinity=0.04, reset_v=-65.0, thresh_v=-30.0, refrac_t=2.0,
                       tc_membrane=10.0, tc_adaptation=[30.0], voltage_coupling=[0.2], spike_increment=[4.0],
                       resistance=1.0),
    "EIF": dict(rest_v=-60.0, rheobase_v=-50.0, sharpness=2.0, reset_v=-65.0, thresh_v=-30.0, refrac_t=2.0,
                time_constant=10.0, resistance=1.0),
    "AdEx": dict(rest_v=-60.0, rheobase_v=-50.0, sharpness=2.0, reset_v=-65.0, thresh_v=-30.0, refrac_t=2.0,
                 tc_membrane=10.0, tc_adaptation=[30.0], voltage_coupling=[0.2], spike_increment=[4.0], resistance=1.0),
}
NEURONS = list(NEURON_DEFAULTS)
ADAPTIVE = {"ALIF": "threshold_adaptation", "GLIF2": "threshold_adaptation", "Izhikevich": "current_adaptation",
            "AdEx": "current_adaptation"}
SYNAPSES = ["delta", "deltaplus", "single", "double"]
CONNECTIONS = ["dense", "direct", "lateral", "conv"]


def make_neuron(cls, shape, dt, B=1, dtype=None, **over):
    if cls == "ExactNeuron":
        # the shipped demonstration neuron (inferno.extra): fires exactly where its input is positive, keeps only its spikes
        from inferno.extra import ExactNeuron

        n = ExactNeuron(tuple(shape), dt, rest_v=-60.0, thresh_v=-50.0, batch_size=B)
        if dtype is not None:
            n.to(dtype)
        return n
    kw = dict(NEURON_DEFAULTS[cls])
    kw.update(over)
    if "refrac_steps" in kw:
        kw["refrac_t"] = kw.pop("refrac_steps") * dt
    n = getattr(neural, cls)(tuple(shape), dt, batch_size=B, **kw)
    if dtype is not None:
        n.to(dtype)
    return n


def synapse_ctor(kind, interp="previous", tol=0.0, inplace=False, **over):
    if kind == "delta":
        return neural.DeltaCurrent.partialconstructor(over.get("Q", 30.0), interp, tol, inplace=inplace)
    if kind == "deltaplus":
        return neural.DeltaPlusCurrent.partialconstructor(over.get("Q", 30.0), interp, tol, inplace=inplace)
    if kind == "single":
        return neural.SingleExponentialCurrent.partialconstructor(over.get("Q", 60.0), over.get("tc", 4.0), interp, tol,
                                                                  inplace=inplace)
    if kind == "double":
        return neural.DoubleExponentialCurrent.partialconstructor(over.get("Q", 90.0), over.get("tc", 6.0),
                                                                  over.get("tr", 1.5), interp, tol, inplace=inplace)
    raise ValueError(kind)


def make_connection(kind, dt, syn="delta", B=1, delay=None, bias=False, nin=4, nout=3, dtype=None, inplace=False,
                    interp="previous", tol=0.0, conv=(4, 4, 1, 2, 2)):
    """dense: nin -> nout ; direct / lateral: nin -> nin ; conv: (H, W, C, F, k)"""
    sc = synapse_ctor(syn, interp, tol, inplace)
    kw = dict(synapse=sc, bias=bias, delay=delay, batch_size=B)
    if kind == "dense":
        c = neural.LinearDense((nin,), (nout,), dt, **kw)
    elif kind == "direct":
        c = neural.LinearDirect((nin,), dt, **kw)
    elif kind == "lateral":
        c = neural.LinearLateral((nin,), dt, **kw)
    elif kind == "conv":
        h, w, ch, f, k = conv
        c = neural.Conv2D(h, w, ch, f, dt, k, **kw)
    else:
        raise ValueError(kind)
    if dtype is not None:
        c.to(dtype)
    return c


def randomize(conn, gen, wscale=1.0, delay_steps=None, dt=1.0):
    """give a connection reproducible parameters (weight, bias, on-grid delays)"""
    conn.weight = torch.rand(conn.weight.shape, generator=gen).to(conn.weight.dtype) * wscale
    if conn.biased:
        conn.bias = (torch.rand(conn.bias.shape, generator=gen).to(conn.bias.dtype) - 0.5) * wscale
    if conn.delayedby is not None and delay_steps is not None:
        k = torch.randint(0, delay_steps + 1, conn.delay.shape, generator=gen)
        conn.delay = (k * dt).to(conn.delay.dtype)


def copy_params(src, dst):
    """copy learned parameters / adaptations (values) from src to an identically configured dst"""
    if hasattr(src, "weight"):
        dst.weight = src.weight.detach().clone()
        if src.biased:
            dst.bias = src.bias.detach().clone()
        if src.delayedby is not None:
            dst.delay = src.delay.detach().clone()
    for attr in ("threshold_adaptation", "current_adaptation"):
        if hasattr(src, attr):
            setattr(dst, attr, getattr(src, attr).detach().clone())
