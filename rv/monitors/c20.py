"""C20 - numerical helpers are self-consistent (interp/extrap, distributions, ISI, Victor-Purpura).

M-inv: algebraic laws evaluated on dense grids / random inputs against the real functions.
"""

from __future__ import annotations

import math

import numpy as np
import torch

import inferno
from inferno import functional as inff
from inferno import stats

PAIRS = [
    ("previous", "previous", {}), ("next", "next", {}), ("neighbors", "nearest", {}),
    ("neighbors", "previous", {}), ("neighbors", "next", {}), ("nearest", "nearest", {}),
    ("linear_forward", "linear", {}), ("linear_backward", "linear", {}),
    ("expdecay", "expdecay", {"time_constant": None}), ("expratedecay", "expratedecay", {"rate_constant": None}),
]


ADJUST = {None: None, "identity": lambda x: x, "half": lambda x: x / 2, "zero": torch.zeros_like,
          "clamp": lambda x: x.clamp(-1.0, 1.0)}


def generate(ctx):
    rng = ctx.rng
    th = ctx.tier == "thorough"
    for i in range(1500 if th else 120):
        yield {"part": "interp", "pair": i % len(PAIRS), "dt": rng.choice([1.0, 0.5, 0.1, 1.3, 2.5]),
               "seed": rng.randrange(1 << 30), "const": rng.choice([0.5, 2.0, 7.5, 20.0, 100.0]),
               "shape": list(rng.choice([(5,), (3, 4), (2, 3, 2)])),
               "adjust": rng.choice([None, "half", "zero", "clamp", "identity"]),
               # bracket observations that are not finite (the NaN fill of an event record, an "infinitely long ago" marker):
               # the pairs that REPLACE a bracket by the sample must still hand the sample back
               "nonfinite": rng.random() < 0.35, "stray_kwarg": rng.random() < 0.5,
               # element types of the data (spike counts, single-precision state) and of the sample times: the round trip is
               # stated for every pair, whatever type the arithmetic promotes to
               "data_dtype": rng.choice(["float64", "float64", "float64", "float32", "int32", "int64"]),
               "time_dtype": rng.choice(["float64", "float64", "float32"])}
    for _ in range(600 if th else 40):
        dist = rng.choice(["Poisson", "Normal", "LogNormal"])
        if dist == "Poisson":
            params = {"rate": rng.choice([0.0, 0.01, 0.5, 1.0, 2.5, 7.0, 20.0, 45.0, round(rng.uniform(0, 50), 3)])}
        elif dist == "Normal":
            params = {"loc": rng.choice([0.0, -3.5, 12.0, round(rng.uniform(-50, 50), 3)]),
                      "scale": rng.choice([0.05, 0.5, 1.0, 3.0, round(rng.uniform(0.05, 20), 3)])}
        else:
            params = {"loc": rng.choice([0.0, -1.0, 1.5, round(rng.uniform(-2, 3), 3)]),
                      "scale": rng.choice([0.1, 0.25, 0.5, 0.9, round(rng.uniform(0.1, 1.0), 3)])}
        d = {"part": "dist", "dist": dist, "params": params, "as": rng.choice(["f64tensor", "f64tensor", "pyfloat"])}
        if dist != "Poisson" and rng.random() < 0.35:
            # narrow distributions: the moment and parameterisation laws are stated for every valid scale, and the
            # single-precision path python floats take is where cancellation shows
            params["scale"] = rng.choice([1e-2, 3e-3, 1e-3, 3e-4, 1e-4, float(f"{10 ** rng.uniform(-4, -1):.3g}")])
            if dist == "Normal":
                params["loc"] = rng.choice([0.0, 1.0, -0.5, round(rng.uniform(-2, 2), 3)])
            d["narrow"] = True
            d["as"] = rng.choice(["f64tensor", "pyfloat", "pyfloat"])
        yield d
        if rng.random() < 0.3:
            # scales at the far ends of what single precision represents (a physical quantity in SI units): the scale, the
            # density and the cdf are all representable there, so the density laws hold; the variance scale**2 is not
            # representable in single precision and is only checked in double precision
            yield {"part": "dist", "dist": "Normal", "extreme": True, "as": rng.choice(["f64tensor", "pyfloat", "pyfloat"]),
                   "params": {"loc": 0.0, "scale": rng.choice([1e-25, 1e-22, 1e-20, 1e-12, 1e12, 1e19, 1e22, 1e25,
                                                              float(f"{10 ** rng.uniform(-28, 28):.3g}")])}}
    for _ in range(2500 if th else 200):
        nd = rng.randint(0, 2)
        yield {"part": "isi", "T": rng.choice([1, 2, 3, 5, 12, 40]), "pop": [rng.randint(1, 3) for _ in range(nd)],
               "p": rng.choice([0.0, 0.05, 0.3, 0.7, 1.0]), "dt": rng.choice([1.0, 0.5, 0.1, 1.3]),
               "seed": rng.randrange(1 << 30), "force_empty_rows": rng.random() < 0.4,
               # the raster's own element type (a spike raster may come as bool, 0/1 integers or 0/1 floats of any width)
               "raster_dtype": rng.choice(["bool", "bool", "float32", "float16", "bfloat16", "int64", "uint8"])}
        if rng.random() < 0.08:
            # a long, sparse recording: spike times beyond what a half-precision float can count
            yield {"part": "isi", "T": 2100, "pop": [2], "p": 0.003, "dt": rng.choice([1.0, 0.5]), "seed": rng.randrange(1 << 30),
                   "force_empty_rows": False, "raster_dtype": rng.choice(["float16", "bfloat16", "bool", "float32"])}
    for _ in range(700 if th else 60):
        yield {"part": "vp", "n": [rng.randint(0, 6) for _ in range(3)], "seed": rng.randrange(1 << 30),
               "costs": sorted(rng.choice([0.01, 0.1, 0.5, 1.0, 2.0, 5.0, 50.0]) for _ in range(3)),
               "int_costs": sorted(rng.choice([1, 1, 2, 3, 5, 50]) for _ in range(3)),
               "grid": rng.random() < 0.5,
               # spike times as they come out of torch.nonzero (integer step indices) or in single precision
               "times_dtype": rng.choice(["float64", "float64", "float32", "int64", "int32"]),
               # the cost as a python float, a python int, a 0-dim tensor or an integer-typed tensor (whole-number costs)
               "cost_as": rng.choice(["float", "float", "int", "int_tensor", "zero_dim"])}


def run_case(ctx, desc):
    if ctx.counters.get("sampled." + desc["part"], 0) == 0:
        ctx.count("sampled." + desc["part"])
        ctx.sample(desc)
    {"interp": _interp, "dist": _dist, "isi": _isi, "vp": _vp}[desc["part"]](ctx, desc)


# ------------------------------------------------------------------------------------------

def _interp(ctx, desc):
    ex, ip, kw = PAIRS[desc["pair"]]
    kw = {k: desc["const"] if "time" in k else 1.0 / desc["const"] for k in kw}
    if kw and desc.get("stray_kwarg"):
        # one keyword dictionary shared by several kernels (as a record's interp / extrap kwargs are): every kernel absorbs the
        # keywords meant for the others, here the other decay kernel's constant with an unrelated value
        kw = {**kw, ("rate_constant" if "time_constant" in kw else "time_constant"): 3.7}
        ctx.count("decay_roundtrips_with_a_stray_keyword")
    dt = desc["dt"]
    g = torch.Generator().manual_seed(desc["seed"])
    shape = tuple(desc["shape"])
    sample = torch.randn(shape, generator=g, dtype=torch.float64) * 10
    prev = torch.randn(shape, generator=g, dtype=torch.float64) * 10
    nxt = torch.randn(shape, generator=g, dtype=torch.float64) * 10
    if desc.get("nonfinite") and desc["pair"] < 6:
        pf, nf_ = prev.view(-1), nxt.view(-1)
        pf[0], nf_[0] = float("inf"), float("-inf")
        pf[-1] = float("nan")
        if nf_.numel() > 2:
            nf_[1] = float("nan")
        ctx.count("roundtrips_with_nonfinite_brackets")
    prev64, nxt64 = prev, nxt
    ddt = {"float64": torch.float64, "float32": torch.float32, "int32": torch.int32, "int64": torch.int64}[desc.get("data_dtype", "float64")]
    tdt = torch.float32 if desc.get("time_dtype") == "float32" else torch.float64
    typed = ddt != torch.float64 or tdt != torch.float64
    if typed and not (desc.get("nonfinite") and desc["pair"] < 6 and not ddt.is_floating_point):
        sample, prev, nxt = sample.to(ddt), prev.to(ddt), nxt.to(ddt)
        ctx.count("roundtrips_with_other_data_or_time_dtypes")
    else:
        typed, ddt, tdt = False, torch.float64, torch.float64
    single = typed and (ddt == torch.float32 or tdt == torch.float32)
    # the arithmetic runs in the promoted type: single precision when either side is single precision
    RT, AT = (2e-5, 2e-4) if single else (1e-10, 1e-9)
    fracs = [0.0, 1e-6, 0.1, 0.25, 0.5 - 1e-6, 0.5 - 1e-9, 0.5, 0.5 + 1e-9, 0.5 + 1e-7, 0.5 + 1e-6, 0.75, 0.9, 1 - 1e-6, 1.0]
    efn, ifn = getattr(inff, "extrap_" + ex), getattr(inff, "interp_" + ip)
    # the linear pairs document an optional adjustment f of the bracket they keep: X(0) = f(D(0)) (forward) or
    # X(dt) = f(D(dt)) (backward), the other slot on the line through it and the sample
    adj = ADJUST[desc.get("adjust")] if ex.startswith("linear") else None
    if adj is not None:
        kw = {**kw, "adjust": adj}
    for fr in fracs:
        ctx.case(f"interp/{ex}->{ip}/frac{fr}/dt{dt}")
        sat = torch.full(shape, fr * dt, dtype=tdt)
        linear = ex.startswith("linear")
        if linear and (fr in (0.0, 1.0)):
            # the line through one bracket and the sample is undefined when they coincide in time
            ctx.guard_skips += 0  # not a decision near a boundary: excluded by definition, not counted
            continue
        try:
            a, b = efn(sample, sat, prev, nxt, dt, **kw)
            back = ifn(a, b, sat, dt, **kw)
        except Exception as e:  # noqa: BLE001
            ctx.violation(ctx.exc_signature(e, f"interp.{ex}->{ip}"), f"{type(e).__name__}: {str(e)[:100]}", desc)
            return
        if ex in ("expdecay", "expratedecay"):
            # both extrapolated slots lie on ONE decay curve: decaying the older one for a full step gives the newer one
            full = ifn(a, b, torch.full(shape, dt, dtype=tdt), dt, **kw)
            ctx.count("decay_curve_laws")
            if not torch.allclose(full.double(), b.double(), rtol=RT, atol=AT):
                ctx.violation(f"interp.decay_curve.{ex}", "extrapolated older and newer slots are not on one decay curve", desc,
                              {"frac": fr})
                return
        cond = 1.0
        if linear:
            cond = 1.0 / min(fr, 1 - fr)
        if adj is not None:
            kept, want = (a, adj(prev)) if ex == "linear_forward" else (b, adj(nxt))
            ctx.count("adjusted_bracket_laws")
            if not torch.equal(kept, want):
                ctx.violation(f"interp.adjusted_bracket.{ex}", "the kept bracket is not the adjusted observation f(D)", desc, {"frac": fr})
                return
        ctx.count("roundtrip_laws")
        if not torch.allclose(back.double(), sample.double(), rtol=RT * cond, atol=AT * cond):
            ctx.violation(f"interp.roundtrip.{ex}->{ip}", f"interp(extrap(x)) != x at sample_at={fr}*dt", desc,
                          {"frac": fr, "err": float((back.double() - sample.double()).abs().max())})
            return
    if desc.get("nonfinite") and desc["pair"] < 6:
        return
    prev, nxt = prev64, nxt64
    # linear interpolation: between the brackets, equal to them at the ends
    for fr in [0.0, 0.2, 0.5, 0.8, 1.0]:
        sat = torch.full(shape, fr * dt, dtype=torch.float64)
        v = inff.interp_linear(prev, nxt, sat, dt)
        lo, hi = torch.minimum(prev, nxt), torch.maximum(prev, nxt)
        tol = 1e-12 * (prev.abs() + nxt.abs()) + 1e-12
        ctx.count("linear_bracket_laws")
        if not (torch.all(v >= lo - tol) and torch.all(v <= hi + tol)):
            ctx.violation("interp.linear.outside_brackets", f"linear interpolation outside its brackets at {fr}", desc)
            return
        if fr == 0.0 and not torch.allclose(v, prev, rtol=1e-12, atol=1e-12):
            ctx.violation("interp.linear.end_older", "linear interpolation at 0 != older bracket", desc)
            return
        if fr == 1.0 and not torch.allclose(v, nxt, rtol=1e-12, atol=1e-12):
            ctx.violation("interp.linear.end_newer", "linear interpolation at dt != newer bracket", desc)
            return


# ------------------------------------------------------------------------------------------

def _call(ctx, desc, name, fn, *args):
    try:
        return fn(*args)
    except RecursionError as e:
        ctx.violation(f"dist.{desc['dist']}.{name}.RecursionError", f"{name} recursed without bound", desc)
    except Exception as e:  # noqa: BLE001
        ctx.violation(ctx.exc_signature(e, f"dist.{desc['dist']}.{name}"), f"{type(e).__name__}: {str(e)[:100]}", desc)
    return None


def _dist(ctx, desc):
    D = getattr(stats, desc["dist"])
    p = desc["params"]
    f64 = desc["as"] == "f64tensor"
    rtol = 1e-7 if f64 else 2e-3
    atol = 1e-9 if f64 else 2e-4
    name = desc["dist"]
    ctx.case(f"dist/{name}/{desc['as']}/" + "/".join(f"{k}={v}" for k, v in p.items()))
    conv = (lambda x: torch.tensor(x, dtype=torch.float64)) if f64 else (lambda x: x)

    def close(a, b, rt=rtol, at=atol):
        a, b = torch.as_tensor(a, dtype=torch.float64), torch.as_tensor(b, dtype=torch.float64)
        return bool(torch.allclose(a, b, rtol=rt, atol=at, equal_nan=False))

    # the documented validity test agrees with the parameter domains the laws below are stated on
    ctx.count("validity_queries")
    try:
        if name == "Poisson":
            ok = D.validate(rate=conv(p["rate"]), support=torch.arange(0, 5, dtype=torch.float64))
            bad = D.validate(rate=conv(-abs(p["rate"]) - 0.5), support=torch.tensor([0.5, -1.0]))
        else:
            ok = D.validate(loc=conv(p["loc"]), scale=conv(p["scale"]), support=torch.tensor([0.5, 2.0]))
            bad = D.validate(scale=conv(-p["scale"]))
    except Exception as e:  # noqa: BLE001
        return ctx.violation(ctx.exc_signature(e, f"dist.{name}.validate"), f"{type(e).__name__}: {str(e)[:120]}", desc)
    truthy = lambda v: bool(torch.as_tensor(v).all())
    if not all(truthy(v) for v in ok.values() if v is not None):
        return ctx.violation(f"dist.{name}.validate.rejects_valid_parameters", f"{ok}", desc)
    if any(truthy(v) for v in bad.values() if v is not None):
        return ctx.violation(f"dist.{name}.validate.accepts_invalid_parameters", f"{bad}", desc)
    if name == "Poisson":
        rate = p["rate"]
        K = int(rate + 12 * math.sqrt(rate) + 25)
        k = torch.arange(0, K + 1, dtype=torch.float64 if f64 else torch.float32)
        r = conv(rate)
        pmf = _call(ctx, desc, "pmf", D.pmf, k, r)
        lpmf = _call(ctx, desc, "logpmf", D.logpmf, k, r)
        cdf = _call(ctx, desc, "cdf", D.cdf, k, r)
        lcdf = _call(ctx, desc, "logcdf", D.logcdf, k, r)
        if any(x is None for x in (pmf, lpmf, cdf, lcdf)):
            return
        pmf, lpmf, cdf, lcdf = (x.to(torch.float64) for x in (pmf, lpmf, cdf, lcdf))
        ctx.count("dist_laws", 7)
        if not close(torch.exp(lpmf), pmf):
            return ctx.violation("dist.Poisson.exp_logpmf_ne_pmf", "exp(logpmf) != pmf", desc)
        if not close(pmf.sum(), 1.0, rt=0, at=1e-6 if f64 else 2e-3):
            return ctx.violation("dist.Poisson.pmf_not_normalised", f"sum pmf = {float(pmf.sum())}", desc)
        if not close(torch.cumsum(pmf, 0), cdf, rt=0, at=1e-6 if f64 else 2e-3):
            return ctx.violation("dist.Poisson.cumsum_pmf_ne_cdf", "cumulative pmf != cdf", desc,
                                 {"max_err": float((torch.cumsum(pmf, 0) - cdf).abs().max())})
        if not close(lcdf, torch.log(cdf), rt=1e-6 if f64 else 1e-3, at=1e-6 if f64 else 1e-3):
            return ctx.violation("dist.Poisson.logcdf_ne_log_cdf", "logcdf != log(cdf)", desc)
        # documented form: the regularised gamma function at floor(k + 1) - a step function of a real-valued k
        for fr in (0.25, 0.5, 0.999):
            stepc = _call(ctx, desc, "cdf", D.cdf, k + fr, r)
            ctx.count("poisson_cdf_between_integers")
            if stepc is None or not close(stepc.to(torch.float64), cdf, rt=0, at=1e-9 if f64 else 1e-5):
                return ctx.violation("dist.Poisson.cdf_not_a_step_function", f"cdf(k + {fr}) differs from cdf(k)", desc)
        m = float((k.double() * pmf).sum())
        v = float(((k.double() - m) ** 2 * pmf).sum())
        if not close(m, float(D.mean(r)), rt=1e-5 if f64 else 5e-3, at=1e-6 if f64 else 5e-3):
            return ctx.violation("dist.Poisson.mean_ne_first_moment", f"mean {float(D.mean(r))} vs moment {m}", desc)
        if not close(v, float(D.variance(r)), rt=1e-5 if f64 else 5e-3, at=1e-6 if f64 else 5e-3):
            return ctx.violation("dist.Poisson.variance_ne_second_moment", f"variance {float(D.variance(r))} vs {v}", desc)
        # independent density: exp(k log r - r - lgamma(k+1))
        ref = torch.exp(torch.special.xlogy(k.double(), torch.tensor(rate, dtype=torch.float64)) - rate - torch.lgamma(k.double() + 1))
        if not close(pmf, ref, rt=1e-6 if f64 else 2e-3, at=1e-9 if f64 else 1e-5):
            return ctx.violation("dist.Poisson.pmf_ne_definition", "pmf != rate^k e^-rate / k!", desc)
        return
    loc, scale = p["loc"], p["scale"]
    n = 40001
    if name == "Normal":
        x = torch.linspace(loc - 10 * scale, loc + 10 * scale, n, dtype=torch.float64)
    else:
        x = torch.exp(torch.linspace(loc - 11 * scale, loc + 11 * scale, n, dtype=torch.float64))
    narrow = bool(desc.get("narrow"))
    extreme = bool(desc.get("extreme"))
    # a narrow density cannot be resolved on a single-precision support grid: python-float parameters then meet a
    # double-precision support (the parameters still take the library's python-float conversion)
    xs = x if (f64 or narrow) else x.float()     # (a double-precision support would promote python-float parameters)
    lo, sc = conv(loc), conv(scale)
    pdf = _call(ctx, desc, "pdf", D.pdf, xs, lo, sc)
    lpdf = _call(ctx, desc, "logpdf", D.logpdf, xs, lo, sc)
    cdf = _call(ctx, desc, "cdf", D.cdf, xs, lo, sc)
    lcdf = _call(ctx, desc, "logcdf", D.logcdf, xs, lo, sc)
    if any(v is None for v in (pdf, lpdf, cdf, lcdf)):
        return
    pdf, lpdf, cdf, lcdf = (v.to(torch.float64) for v in (pdf, lpdf, cdf, lcdf))
    ctx.count("dist_laws", 8)
    core = pdf > 1e-30
    if not close(torch.exp(lpdf)[core], pdf[core], rt=1e-9 if f64 else 1e-3):
        return ctx.violation(f"dist.{name}.exp_logpdf_ne_pdf", "exp(logpdf) != pdf", desc)
    cum = torch.cat([torch.zeros(1, dtype=torch.float64), torch.cumulative_trapezoid(pdf, x)])
    if not close(cum[-1], 1.0, rt=0, at=1e-6 if f64 else 2e-3):
        return ctx.violation(f"dist.{name}.pdf_not_normalised", f"integral of pdf = {float(cum[-1])}", desc)
    if not close(cum + cdf[0], cdf, rt=0, at=1e-6 if f64 else 2e-3):
        return ctx.violation(f"dist.{name}.integral_pdf_ne_cdf", "integral of pdf != cdf", desc,
                             {"max_err": float((cum + cdf[0] - cdf).abs().max())})
    ok = cdf > 1e-20
    if not close(lcdf[ok], torch.log(cdf[ok]), rt=1e-6 if f64 else 1e-3, at=1e-6 if f64 else 1e-3):
        return ctx.violation(f"dist.{name}.logcdf_ne_log_cdf", "logcdf != log(cdf)", desc)
    m = float(torch.trapezoid(x * pdf, x))
    if extreme:
        ctx.count("density_laws_at_extreme_scales")
        mean = float(D.mean(lo))
        if not abs(m - mean) <= 5e-3 * scale:
            return ctx.violation(f"dist.{name}.mean_ne_first_moment", f"mean {mean} vs moment {m} at scale {scale}", desc)
        if not f64:
            return
    v = float(torch.trapezoid((x - m) ** 2 * pdf, x))
    mean = float(D.mean(lo) if name == "Normal" else D.mean(lo, sc))
    var = float(D.variance(sc) if name == "Normal" else D.variance(lo, sc))
    if narrow:
        ctx.count("narrow_moment_checks")
    narrow = narrow or extreme      # double precision from here on at an extreme scale: relative comparisons only
    if not extreme and not close(m, mean, rt=1e-5 if f64 else 5e-3, at=1e-6 if f64 else (1e-5 if narrow else 5e-3)):
        return ctx.violation(f"dist.{name}.mean_ne_first_moment", f"mean {mean} vs moment {m}", desc)
    # the variance of a narrow distribution is far below any absolute band: relative comparison only
    if not close(v, var, rt=1e-4 if f64 else (2e-3 if narrow else 1e-2), at=(0.0 if narrow else 1e-6) if f64 else (0.0 if narrow else 5e-3)):
        return ctx.violation(f"dist.{name}.variance_ne_second_moment", f"variance {var} vs moment {v}", desc)
    # mean/variance parameterisation round trip
    tm, tv = (abs(mean) + 0.5, var) if name == "LogNormal" else (mean, var)
    l2, s2 = D.params_mv(conv(tm), conv(tv))
    m2 = float(D.mean(l2) if name == "Normal" else D.mean(l2, s2))
    v2 = float(D.variance(s2) if name == "Normal" else D.variance(l2, s2))
    if narrow:
        okp = D.validate(loc=l2, scale=s2)
        if not all(truthy(v_) for v_ in okp.values() if v_ is not None):
            return ctx.violation(f"dist.{name}.params_mv_returns_invalid_parameters",
                                 f"params_mv({tm},{tv}) = ({float(l2)},{float(s2)}) fails validate", desc)
    vat = 0.0 if narrow else (1e-9 if f64 else 1e-4)
    if not (close(m2, tm, rt=1e-9 if f64 else 1e-4, at=1e-9 if f64 else 1e-4) and close(v2, tv, rt=1e-6 if (f64 and narrow) else (1e-7 if f64 else (2e-3 if narrow else 1e-3)), at=vat)):
        return ctx.violation(f"dist.{name}.params_mv_roundtrip", f"mean/variance(params_mv({tm},{tv})) = ({m2},{v2})", desc)


# ------------------------------------------------------------------------------------------

def _isi(ctx, desc):
    T, pop, dt = desc["T"], tuple(desc["pop"]), desc["dt"]
    g = torch.Generator().manual_seed(desc["seed"])
    sp = torch.rand(pop + (T,), generator=g) < desc["p"]
    if desc["force_empty_rows"] and sp.numel() > T:
        sp.view(-1, T)[0] = False
    rdt = desc.get("raster_dtype", "bool")
    if T > 2048 and sp.numel():
        sp.view(-1, T)[-1, [5, 17, 2049, 2051, 2054, T - 1]] = True      # late, closely spaced spikes
    counts = sp.view(-1, T).sum(-1)
    C = int(counts.max()) if counts.numel() else 0
    ctx.case(f"isi/T{min(T, 6)}/nd{len(pop)}/C{min(C, 4)}/ragged{int(bool((counts != C).any()))}/dt{dt}")
    ctx.count("isi_cases")
    raster = sp if rdt == "bool" else sp.to({"float32": torch.float32, "float16": torch.float16, "bfloat16": torch.bfloat16,
                                             "int64": torch.int64, "uint8": torch.uint8}[rdt])
    if rdt != "bool":
        ctx.count("isi_rasters_in_other_dtypes")
    try:
        last = inferno.isi(raster, dt, time_first=False)
        first = inferno.isi(raster.movedim(-1, 0), dt, time_first=True)
    except Exception as e:  # noqa: BLE001
        ctx.violation(ctx.exc_signature(e, f"isi.C{min(C, 2)}"), f"{type(e).__name__}: {str(e)[:120]}", desc)
        return
    W = max(C - 1, 0)
    if tuple(last.shape) != pop + (W,):
        return ctx.violation("isi.shape" + (".empty_not_zero_length" if W == 0 else ""),
                             f"shape {tuple(last.shape)} expected {pop + (W,)}", desc)
    if tuple(first.shape) != (W,) + pop or not torch.equal(first.movedim(0, -1).nan_to_num(nan=-7.0), last.nan_to_num(nan=-7.0)):
        return ctx.violation("isi.time_first_vs_last", "time-first and time-last results differ", desc)
    if not last.is_floating_point():
        return ctx.violation("isi.dtype", "result is not floating point", desc)
    nrows = int(np.prod(pop)) if pop else 1
    flat_sp, flat = sp.reshape(nrows, T), last.reshape(nrows, W)
    for r in range(flat_sp.shape[0]):
        times = [i * dt for i in range(T) if flat_sp[r, i]]
        c = len(times)
        row = flat[r]
        nvalid = max(c - 1, 0)
        if bool(torch.isnan(row[:nvalid]).any()) or not bool(torch.isnan(row[nvalid:]).all()):
            return ctx.violation("isi.nan_padding", f"NaN padding not exactly at the ragged tail (train with {c} spikes)", desc)
        if nvalid:
            rec = times[0] + np.cumsum(row[:nvalid].double().numpy())
            if not np.allclose(rec, np.array(times[1:]), rtol=1e-5, atol=1e-5 * dt):
                return ctx.violation("isi.reintegration", "first spike time + cumsum(intervals) != spike times", desc,
                                     {"times": times, "intervals": row.tolist()})
        ctx.count("isi_trains_checked")


# ------------------------------------------------------------------------------------------

def _vp_ref(a, b, q):
    n, m = len(a), len(b)
    G = [[0.0] * (m + 1) for _ in range(n + 1)]
    for i in range(n + 1):
        G[i][0] = float(i)
    for j in range(m + 1):
        G[0][j] = float(j)
    for i in range(1, n + 1):
        for j in range(1, m + 1):
            G[i][j] = min(G[i - 1][j] + 1, G[i][j - 1] + 1, G[i - 1][j - 1] + q * abs(a[i - 1] - b[j - 1]))
    return G[n][m]


def _vp(ctx, desc):
    g = np.random.default_rng(desc["seed"])
    trains = []
    tdt = {"float64": torch.float64, "float32": torch.float32, "int64": torch.int64, "int32": torch.int32}[desc.get("times_dtype", "float64")]
    for n in desc["n"]:
        if not tdt.is_floating_point:
            t = np.sort(g.integers(0, 40, size=n).astype(np.float64))
        else:
            t = np.sort(g.integers(0, 40, size=n).astype(np.float64) * 0.5 if desc["grid"] else g.uniform(0, 20, size=n))
        if tdt == torch.float32:
            t = t.astype(np.float32).astype(np.float64)
        trains.append(t)
    a, b, c = (torch.tensor(t, dtype=torch.float64).to(tdt) for t in trains)
    if tdt != torch.float64:
        ctx.count("vp_cases_with_other_spike_time_dtypes")
    cost_as = desc.get("cost_as", "float")
    costs = desc["int_costs"] if cost_as in ("int", "int_tensor") else desc["costs"]
    dist_fn = inferno.victor_purpura_pair_dist
    if cost_as != "float":
        ctx.count("vp_cases_with_other_cost_forms")

    def d(x, y, q):
        if isinstance(q, torch.Tensor) or cost_as == "float" or q in (0.0, float("inf")):
            return dist_fn(x, y, q)
        if cost_as == "int":
            return dist_fn(x, y, int(q))
        if cost_as == "int_tensor":
            return dist_fn(x, y, torch.tensor([int(q)]))
        return dist_fn(x, y, torch.tensor(float(q)))
    ctx.case(f"vp/n{min(desc['n'][0], 3)}-{min(desc['n'][1], 3)}-{min(desc['n'][2], 3)}/grid{int(desc['grid'])}/{desc.get('times_dtype', 'float64')}")
    ctx.count("vp_cases")
    eps = 2e-5 * (sum(desc['n']) + 1)  # a float cost makes the dynamic programme run in float32
    try:
        prev_ab = None
        for q in costs:
            ab, ba, aa = float(d(a, b, q)), float(d(b, a, q)), float(d(a, a, q))
            bc, ac = float(d(b, c, q)), float(d(a, c, q))
            n, m = len(trains[0]), len(trains[1])
            if abs(aa) > eps:
                return ctx.violation("vp.identity", f"d(x,x)={aa} at cost {q}", desc)
            if abs(ab - ba) > eps:
                return ctx.violation("vp.symmetry", f"d(a,b)={ab} d(b,a)={ba}", desc)
            if ac > ab + bc + eps:
                return ctx.violation("vp.triangle", f"d(a,c)={ac} > {ab}+{bc}", desc)
            if not (abs(n - m) - eps <= ab <= n + m + eps):
                return ctx.violation("vp.bounds", f"d={ab} outside [{abs(n - m)}, {n + m}]", desc)
            if prev_ab is not None and ab < prev_ab - eps:
                return ctx.violation("vp.monotone_in_cost", f"d decreased from {prev_ab} to {ab}", desc)
            ref = _vp_ref(trains[0], trains[1], q)
            if abs(ref - ab) > eps:
                return ctx.violation("vp.value_vs_reference_dp", f"d={ab} reference {ref} at cost {q}", desc)
            prev_ab = ab
            ctx.count("vp_laws", 6)
        n, m = len(trains[0]), len(trains[1])
        if float(d(a, b, 0.0)) != abs(n - m) or float(d(a, b, float("inf"))) != n + m:
            return ctx.violation("vp.cost_limits", "documented values at cost 0 / inf not returned", desc)
        vec = d(a, b, torch.tensor(costs, dtype=torch.int64 if cost_as == "int_tensor" else torch.float64))
        each = [float(d(a, b, q)) for q in costs]
        if tuple(vec.shape) != (len(costs),) or not np.allclose(vec.numpy(), each, atol=eps):
            return ctx.violation("vp.vector_cost", "tensor of costs disagrees with scalar costs", desc)
        # the cost limits also hold when they are entries of a cost tensor, for every pair incl. d(x, x) and trains that
        # share their last spike time
        lim = torch.tensor([0.0, costs[0], float("inf")], dtype=torch.float64)
        shared = torch.cat([c[:-1], a[-1:]]) if len(trains[0]) and len(trains[2]) else c
        for x, y, tagp in ((a, b, "a_b"), (a, a, "x_x"), (a, shared, "shared_last_spike")):
            n1, m1 = x.numel(), y.numel()
            v = d(x, y, lim)
            ctx.count("vp_limit_entries_in_cost_tensor")
            if tuple(v.shape) != (3,) or float(v[0]) != abs(n1 - m1) or float(v[2]) != n1 + m1 or not (abs(n1 - m1) - eps <= float(v[1]) <= n1 + m1 + eps):
                return ctx.violation(f"vp.cost_limits_in_tensor.{tagp}",
                                     f"cost tensor [0, q, inf] gave {v.tolist()} for trains of {n1} and {m1} spikes (documented: |n-m| at 0, n+m at inf)", desc)
    except Exception as e:  # noqa: BLE001
        ctx.violation(ctx.exc_signature(e, "vp"), f"{type(e).__name__}: {str(e)[:120]}", desc)
