"""C16 - state hooks fire exactly when armed and enforce clamping / normalisation.

M-model (firing state machine over random op sequences) + M-inv (post-conditions evaluated at each
firing by a class-level wrapper around Clamping.hook / Normalization.hook).
"""

from __future__ import annotations

import gc

import torch
import torch.nn as nn

import inferno
from inferno import Hook, StateHook
from inferno.neural import Clamping, Normalization, LinearDense, DeltaCurrent

_POST = {"installed": False, "clamp_evals": 0, "norm_evals": 0, "violations": []}


_CONF = {}   # id(hook) -> configured (min, max) or (order, scale, dim); entries live as long as the case's hook


def _install_postconditions():
    if _POST["installed"]:
        return
    from inferno._internal import rgetattr

    orig_c, orig_n = Clamping.hook, Normalization.hook

    def clamp_hook(self, module):
        if _POST.get("order_sink") is not None:
            _POST["order_sink"].append("inferno")
        orig_c(self, module)
        v = rgetattr(self.module, self.attribute)
        _POST["clamp_evals"] += 1
        # what the user configured (recorded by the harness at construction); the hook's own attributes only when the
        # hook was built by somebody else (test-suite workload)
        lo, hi = _CONF.get(id(self), (self.clampmin, self.clampmax))
        bad = (lo is not None and bool((v < lo).any())) or (hi is not None and bool((v > hi).any())) or bool(torch.isnan(v).any())
        if bad:
            _POST["violations"].append(("clamp.out_of_range_after_firing", f"min={lo} max={hi} value range "
                                        f"[{float(v.min())}, {float(v.max())}]"))

    def norm_hook(self, module):
        if _POST.get("order_sink") is not None:
            _POST["order_sink"].append("inferno")
        before = rgetattr(self.module, self.attribute).detach().clone()
        orig_n(self, module)
        v = rgetattr(self.module, self.attribute).detach()
        _POST["norm_evals"] += 1
        order, scale, dim = _CONF.get(id(self), (self.order, self.scale, self.dim))
        wide = lambda t: t.to(torch.complex128) if t.is_complex() else t.double()
        nb = torch.linalg.vector_norm(wide(before), ord=order, dim=dim, keepdim=True)
        na = torch.linalg.vector_norm(wide(v), ord=order, dim=dim, keepdim=True)
        if isinstance(scale, complex):
            _POST["complex_scale_evals"] = _POST.get("complex_scale_evals", 0) + 1
        target = abs(scale)
        zero = nb == 0
        ok_nonzero = torch.isclose(na[~zero], torch.full_like(na[~zero], target), rtol=1e-5, atol=1e-7)
        if not bool(ok_nonzero.all()):
            _POST["violations"].append(("norm.wrong_norm_after_firing", f"norms {na[~zero].flatten()[:4].tolist()} target {target}"))
        zmask = zero.expand_as(v) if dim is not None else zero.expand_as(v)
        if bool(zero.any()) and bool((v[zmask] != 0).any()):
            _POST["violations"].append(("norm.zero_vector_changed", "a zero vector did not stay zero"))
        if tuple(v.shape) != tuple(before.shape):
            _POST["violations"].append(("norm.shape_changed", f"{tuple(before.shape)} -> {tuple(v.shape)}"))

    Clamping.hook = clamp_hook
    Normalization.hook = norm_hook
    _POST["installed"] = True


class _Probe(nn.Module):
    def __init__(self, log):
        super().__init__()
        self.log = log
        self.w = torch.zeros(3)

    def forward(self, x=None):
        self.log.append("forward")
        return x


class _ProbeInf(inferno.Module):
    def __init__(self, log):
        inferno.Module.__init__(self)
        self.log = log

    def forward(self, x=None):
        self.log.append("forward")
        return x


class _ProbeState(StateHook):
    def __init__(self, module, log, tag, **kw):
        self._log = log
        self._tag = tag
        StateHook.__init__(self, module, **kw)

    def hook(self, module):
        self._log.append(self._tag)


def generate(ctx):
    rng = ctx.rng
    th = ctx.tier == "thorough"
    for _ in range(5000 if th else 400):
        kind = rng.choice(["hook", "statehook", "statehook"])
        ops = []
        for _ in range(rng.randint(8, 40)):
            r = rng.random()
            if r < 0.30:
                ops.append("call")
            elif r < 0.42:
                ops.append("register")
            elif r < 0.52:
                ops.append("deregister")
            elif r < 0.62:
                ops.append(rng.choice(["train", "eval"]))
            elif r < 0.72 and kind == "statehook":
                ops.append(rng.choice(["manual", "manual_force", "manual_ignore", "manual_force_ignore"]))
            elif r < 0.80:
                ops.append(rng.choice(["flag_train_on", "flag_train_off", "flag_eval_on", "flag_eval_off"]))
            elif r < 0.86:
                ops.append("delete_gc")
            elif r < 0.92:
                ops.append("recreate")
            else:
                ops.append("call")
        yield {"part": "fsm", "kind": kind, "train_update": rng.random() < 0.7, "eval_update": rng.random() < 0.7,
               "pre": rng.random() < 0.5, "both": rng.random() < 0.3, "probe": rng.choice(["nn", "inferno"]),
               "start_registered": rng.random() < 0.5, "ops": ops}
    for _ in range(4000 if th else 500):
        which = rng.choice(["clamp", "norm"])
        target = rng.choice(["plain", "buffer", "weight", "updater_parent_weight", "nested3"])
        d = {"part": "post", "which": which, "target": target, "seed": rng.randrange(1 << 30),
             "train_update": rng.random() < 0.8, "eval_update": rng.random() < 0.8, "pre": rng.random() < 0.4,
             "shape": [rng.randint(1, 4), rng.randint(1, 5)], "nops": rng.randint(3, 10),
             "prepend": rng.random() < 0.3, "always_call": rng.random() < 0.3}
        if which == "clamp":
            lo = rng.choice([None, -1.0, 0.0, 0.25, -3, -2.5, round(rng.uniform(-4.0, 3.0), 3)])
            hi = rng.choice([None, 1.0, 0.5, 2, 10.0, 0.0, 0, -0.5, round(rng.uniform(-3.0, 4.0), 3)])
            if lo is None and hi is None:
                hi = 0.5
            if lo is not None and hi is not None and hi <= lo:
                hi = lo + 1
            d.update({"min": lo, "max": hi, "int_target": target in ("plain", "buffer", "nested3") and rng.random() < 0.3})
        else:
            d.update({"order": rng.choice([1, 2, 0.5, 3, float("inf"), round(rng.uniform(0.6, 4.0), 2)]),
                      "scale": rng.choice([1.0, 2.5, -1.0, -0.3, 10, round(rng.choice([-1, 1]) * rng.uniform(0.05, 5.0), 3)]),     # documented: nonzero
                      "dim": rng.choice([None, 0, 1, -1, [0, 1]]), "zero_row": rng.random() < 0.4,
                      # epsilon only guards the division for (near-)zero vectors: every vector drawn here is either exactly
                      # zero or has a norm far above it, so the post-condition is the same for all of these
                      "epsilon": rng.choice([None, None, 1e-6, 1e-3, 0.05]), "tiny_row": rng.random() < 0.3})
            if target in ("plain", "buffer", "nested3") and rng.random() < 0.3:
                # documented scale type: float | complex; the post-condition speaks of the MAGNITUDE of the scale
                d["scale_imag"] = rng.choice([4.0, -1.0, 2.0, 0.5])
                if rng.random() < 0.3:
                    d["scale"] = 0.0      # purely imaginary
        yield d


def run_case(ctx, desc):
    if ctx.counters.get("sampled." + desc["part"], 0) == 0:
        ctx.count("sampled." + desc["part"])
        ctx.sample(desc)
    if desc["part"] == "fsm":
        _fsm(ctx, desc)
    else:
        _post(ctx, desc)


def _nhooks(m):
    return len(m._forward_hooks) + len(m._forward_pre_hooks)


def _fsm(ctx, desc):
    log = []
    mod = _Probe(log) if desc["probe"] == "nn" else _ProbeInf(log)
    base = _nhooks(mod)
    kind = desc["kind"]
    pre, both = desc["pre"], desc["both"] and kind == "hook"

    def make():
        if kind == "hook":
            prefn = (lambda m, a: log.append("pre")) if (pre or both) else None
            postfn = (lambda m, a, o: log.append("post")) if (not pre or both) else None
            return Hook(prefn, postfn, train_update=st["tflag"], eval_update=st["eflag"])
        return _ProbeState(mod, log, "pre" if pre else "post", train_update=st["tflag"], eval_update=st["eflag"],
                           as_prehook=pre)

    st = {"registered": False, "tflag": desc["train_update"], "eflag": desc["eval_update"], "alive": True}
    h = make()

    def register():
        if kind == "hook":
            h.register(mod)
        else:
            h.register()

    if desc["start_registered"]:
        register()
        st["registered"] = True
    for oi, op in enumerate(desc["ops"]):
        rdesc = {**desc, "ops": desc["ops"][: oi + 1]}
        armed = st["alive"] and st["registered"] and ((st["tflag"] and mod.training) or (st["eflag"] and not mod.training))
        ctx.case(f"fsm/{kind}/{op}/reg{int(st['registered'])}/alive{int(st['alive'])}/armed{int(armed)}/"
                 f"{'pre' if pre else 'post'}{'+both' if both else ''}/{desc['probe']}",
                 nontrivial=op not in ("train", "eval"))
        del log[:]
        try:
            if op == "call":
                mod(torch.zeros(1))
                exp = []
                if armed and (pre or both):
                    exp.append("pre")
                exp.append("forward")
                if armed and (not pre or both):
                    exp.append("post")
                ctx.count("module_calls_checked")
                if log != exp:
                    why = ("fired_when_not_armed" if len(log) > len(exp) else "did_not_fire_when_armed") \
                        if sorted(log) != sorted(exp) else "wrong_position"
                    if not st["alive"]:
                        why = "fired_after_collection"
                    elif not st["registered"] and len(log) > len(exp):
                        why = "fired_after_deregister"
                    return ctx.violation(f"fsm.{kind}.call.{why}", f"events {log} expected {exp}", rdesc,
                                         {"state": dict(st), "training": mod.training})
            elif op == "register":
                if not st["alive"]:
                    continue
                if st["registered"]:
                    if kind == "hook":
                        try:
                            register()
                            return ctx.violation("fsm.hook.second_register_accepted", "second register() did not raise", rdesc)
                        except RuntimeError:
                            pass
                    else:
                        register()  # documented no-op for StateHook
                    if _nhooks(mod) != base + (2 if both else 1):
                        return ctx.violation(f"fsm.{kind}.second_register_added_handle", "second register added a handle", rdesc)
                else:
                    register()
                    st["registered"] = True
                    if not h.registered or _nhooks(mod) != base + (2 if both else 1):
                        return ctx.violation(f"fsm.{kind}.register.handles", f"handles {_nhooks(mod) - base}", rdesc)
            elif op == "deregister":
                if not st["alive"]:
                    continue
                h.deregister()
                st["registered"] = False
                ctx.count("deregistrations_checked")
                if h.registered or _nhooks(mod) != base:
                    return ctx.violation(f"fsm.{kind}.deregister.dangling_handle", f"{_nhooks(mod) - base} handles left", rdesc)
            elif op in ("train", "eval"):
                mod.train(op == "train")
            elif op.startswith("manual"):
                if not st["alive"]:
                    continue
                force, ign = "force" in op, "ignore" in op
                h(force=force, ignore_mode=ign)
                mode_ok = (st["tflag"] and mod.training) or (st["eflag"] and not mod.training)
                exp = [("pre" if pre else "post")] if (st["registered"] or force) and (ign or mode_ok) else []
                ctx.count("manual_calls_checked")
                if log != exp:
                    return ctx.violation(f"fsm.statehook.manual.{'force' if force else 'noforce'}."
                                         f"{'ignore' if ign else 'respect'}_mode", f"events {log} expected {exp}", rdesc,
                                         {"state": dict(st), "training": mod.training})
            elif op.startswith("flag_"):
                if not st["alive"]:
                    continue
                val = op.endswith("_on")
                if "train" in op:
                    h.trainexec = val
                    st["tflag"] = val
                else:
                    h.evalexec = val
                    st["eflag"] = val
            elif op == "delete_gc":
                if not st["alive"]:
                    continue
                h = None
                gc.collect()
                st["alive"] = False
                st["registered"] = False
                ctx.count("collections_checked")
                if _nhooks(mod) != base:
                    return ctx.violation(f"fsm.{kind}.collected.dangling_handle", f"{_nhooks(mod) - base} handles left after gc", rdesc)
            elif op == "recreate":
                if st["alive"]:
                    continue
                h = make()
                st["alive"] = True
        except Exception as e:  # noqa: BLE001
            return ctx.violation(ctx.exc_signature(e, f"fsm.{kind}.{op}"), f"{type(e).__name__}: {str(e)[:140]}", rdesc)


class _Boom(RuntimeError):
    pass


class _Holder(nn.Module):
    def __init__(self):
        super().__init__()
        self.raise_next = False

    def forward(self, x=None):
        if self.raise_next:
            self.raise_next = False
            raise _Boom("forward failed")
        return x


def _post(ctx, desc):
    _install_postconditions()
    g = torch.Generator().manual_seed(desc["seed"])
    shape = tuple(desc["shape"])
    target = desc["target"]

    def fresh():
        t = (torch.rand(shape, generator=g) - 0.5) * 8
        if desc["which"] == "clamp" and desc.get("int_target"):
            # an integer-typed state tensor (counts): the bounds are documented as int | float, and a fractional bound still binds
            return t.round().to(torch.int64)
        if desc["which"] == "norm" and desc.get("epsilon"):
            t = t + torch.sign(t) * 0.5       # |entries| >= 0.5: every non-zero norm is far above the largest epsilon drawn
        if desc["which"] == "norm" and desc.get("tiny_row") and not desc.get("epsilon"):
            if desc.get("dim") in (0,):       # small but ~1e5 x the default epsilon
                t[:, -1] = t[:, -1] * 1e-7
            else:
                t[-1] = t[-1] * 1e-7
        if desc["which"] == "norm" and desc.get("zero_row"):
            t[0] = 0
            if desc.get("dim") in (0,):
                t[:, 0] = 0
        return t

    if target == "nested3":
        # a documented dot-separated path three levels deep: the hook is tied to the outer module, the tensor lives two below
        mod = _Holder()
        mod.stage = _Holder()
        mod.stage.block = _Holder()
        mod.stage.block.data = fresh()
        attr = "stage.block.data"

        def assign(t):
            mod.stage.block.data = t

        def call():
            mod(None)
    elif target in ("plain", "buffer"):
        mod = _Holder()
        if target == "plain":
            mod.w = fresh()
        else:
            mod.register_buffer("w", fresh())
        attr = "w"

        def assign(t):
            mod.w = t

        def call():
            mod(None)
    else:
        conn = LinearDense(shape[1], shape[0], 1.0, synapse=DeltaCurrent.partialconstructor(1.0))
        if target == "weight":
            mod, attr = conn, "weight"
        else:
            # the typical use: clamp / normalise the weights after every Updater application
            conn.updater = conn.defaultupdater()
            mod, attr = conn.updater, "parent.weight"
        conn.weight = fresh()

        def assign(t):
            conn.weight = t

        if target == "weight":
            def call():
                conn(torch.zeros(1, shape[1]).bool())
        else:
            def call():
                conn.update()
    kw = {"train_update": desc["train_update"], "eval_update": desc["eval_update"], "as_prehook": desc["pre"]}
    if desc.get("prepend"):
        kw["prepend"] = True          # ordering among several hooks only: firing and post-conditions are unchanged
    if desc.get("always_call"):
        kw["always_call"] = True      # (post-position only) run even if the module call raises
    try:
        if desc["which"] == "clamp":
            hk = Clamping(mod, attr, desc["min"], desc["max"], **kw)
            _CONF.clear()
            _CONF[id(hk)] = (desc["min"], desc["max"])
        else:
            dim = desc["dim"]
            if desc.get("epsilon"):
                kw["epsilon"] = desc["epsilon"]
            scale = complex(desc["scale"], desc["scale_imag"]) if desc.get("scale_imag") else desc["scale"]
            hk = Normalization(mod, attr, desc["order"], scale, tuple(dim) if isinstance(dim, list) else dim, **kw)
            _CONF.clear()
            _CONF[id(hk)] = (desc["order"], scale, tuple(dim) if isinstance(dim, list) else dim)
        hk.register()
    except Exception as e:  # noqa: BLE001
        return ctx.violation(ctx.exc_signature(e, f"post.{desc['which']}.construct.{target}"), f"{type(e).__name__}: {str(e)[:140]}", desc)
    ctx.case(f"post/{desc['which']}/{target}/" + (f"min{desc['min']}/max{desc['max']}" if desc["which"] == "clamp" else
             f"p{desc['order']}/s{desc['scale']}/dim{desc['dim']}/zero{int(bool(desc.get('zero_row')))}") + f"/{'pre' if desc['pre'] else 'post'}")
    if desc["which"] == "clamp" and desc.get("int_target"):
        ctx.count("clamped_integer_typed_targets")
    nv0 = len(_POST["violations"])
    e0 = _POST["clamp_evals"] + _POST["norm_evals"]
    ce0 = _POST.get("complex_scale_evals", 0)
    from inferno._internal import rgetattr
    for i in range(desc["nops"]):
        try:
            assign(fresh())
            if i % 3 == 1:
                mod.train(not mod.training)
            armed = (desc["train_update"] and mod.training) or (desc["eval_update"] and not mod.training)
            before = rgetattr(mod, attr).detach().clone()
            fired0 = _POST["clamp_evals"] + _POST["norm_evals"]
            call()
            fired = _POST["clamp_evals"] + _POST["norm_evals"] - fired0
            if fired != (1 if armed else 0):
                return ctx.violation(f"post.{desc['which']}.firing_count", f"fired {fired} times, armed={armed}", desc)
            if not armed and not torch.equal(before, rgetattr(mod, attr).detach()):
                return ctx.violation(f"post.{desc['which']}.changed_when_not_armed", "attribute changed although the hook was not armed", desc)
        except Exception as e:  # noqa: BLE001
            return ctx.violation(ctx.exc_signature(e, f"post.{desc['which']}.{target}"), f"{type(e).__name__}: {str(e)[:140]}", desc)
    if target in ("plain", "buffer", "nested3"):
        # --- position among several hooks (prepend) and firing when the module call raises (always_call, post position)
        mod.train(True)
        armed = bool(desc["train_update"])
        order = []
        marker = _POST.setdefault("order_log", [])
        marker.clear()
        other = (mod.register_forward_pre_hook(lambda *a: order.append("other")) if desc["pre"]
                 else mod.register_forward_hook(lambda *a: order.append("other")))
        # the foreign hook registered AFTER ours runs after ours by default; ours with prepend=True also precedes hooks that
        # were registered BEFORE it: re-register ours after the foreign one to make the difference observable
        hk.deregister()
        hk.register()
        try:
            assign(fresh())
            f0 = _POST["clamp_evals"] + _POST["norm_evals"]
            _POST["order_sink"] = order
            call()
            _POST["order_sink"] = None
            if armed:
                want = ["inferno", "other"] if desc.get("prepend") else ["other", "inferno"]
                ctx.count("hook_order_checks")
                if order != want:
                    other.remove()
                    return ctx.violation(f"post.{desc['which']}.position_among_hooks.prepend{int(bool(desc.get('prepend')))}",
                                         f"order of execution {order}, expected {want}", desc)
            if not desc["pre"]:
                mod.raise_next = True
                f1 = _POST["clamp_evals"] + _POST["norm_evals"]
                try:
                    call()
                except _Boom:
                    pass
                fired = _POST["clamp_evals"] + _POST["norm_evals"] - f1
                want_f = 1 if (armed and desc.get("always_call")) else 0
                ctx.count("raising_call_checks")
                if fired != want_f:
                    other.remove()
                    return ctx.violation(f"post.{desc['which']}.firing_when_forward_raises.always_call{int(bool(desc.get('always_call')))}",
                                         f"fired {fired} times on a module call that raised, expected {want_f}", desc)
        finally:
            _POST["order_sink"] = None
            other.remove()
    for mech, what in _POST["violations"][nv0:]:
        return ctx.violation(f"post.{mech}.{target}", what, desc)
    n = _POST["clamp_evals"] + _POST["norm_evals"] - e0
    ctx.count("postcondition_evaluations", n)
    ctx.count(f"postcondition_evaluations.{desc['which']}", n)
    if _POST.get("complex_scale_evals", 0) > ce0:
        ctx.count("postcondition_evaluations.complex_scale", _POST["complex_scale_evals"] - ce0)
    hk.deregister()
    if _nhooks(mod) != 0 and target in ("plain", "buffer", "nested3"):
        return ctx.violation("post.deregister.dangling_handle", "handle left after deregister", desc)


def run_suite(ctx):
    """the repository's hook tests with the clamp / norm post-conditions evaluated inside every firing"""
    from rv import suite

    _install_postconditions()
    n0 = len(_POST["violations"])
    suite.run_tests(ctx, ["neural/test_hooks.py", "core/test_hooks.py"])
    ctx.counters["suite_postcondition_evaluations"] = _POST["clamp_evals"] + _POST["norm_evals"]
    ctx.case("suite/test_hooks")
    ctx.case("suite/invariant=clamp_norm_postconditions")
    for mech, what in _POST["violations"][n0:][:5]:
        ctx.violation(f"suite.post.{mech}", what, {"kind": "suite"})
