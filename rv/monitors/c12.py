"""C12 - checkpoint at any step, restore into a fresh model, and the future is identical.

M-rel over EVERY checkpoint position: reference run of length T; for each k in 0..T a second instance is run
k steps, its state dictionaries go through torch.save / torch.load (real serialisation), a third instance of
the same configuration (fresh, or already run on other data) is warmed by one step, loads them strictly and
continues; every later output and the complete final state must equal the uninterrupted run exactly.
"""

from __future__ import annotations

import copy
import io

import torch

import inferno
from inferno import learn, neural, observe

from rv import factory as fac
from rv import trainers as tr
from rv.monitors import c17

TRAINERS = ["none", "STDP", "TripletSTDP", "MSTDP", "MSTDPET", "KernelSTDP", "DelayAdjustedSTDP", "DelayAdjustedSTDPD"]
REDUCERS = ["none", "trace", "event", "ema", "ca", "passthrough"]


def generate(ctx):
    rng = ctx.rng
    th = ctx.tier == "thorough"
    for i in range(260 if th else 12):
        kind = ["serial", "biclique", "recurrent"][i % 3]
        trainer = rng.choice(TRAINERS)
        if i % 6 == 4:
            trainer = "KernelSTDP"      # every shard has kernel trainers with tensor-valued (annealed) kernel arguments
        delay = rng.choice([None, 2]) if trainer not in tr.NEEDS_DELAY else 2
        target = ["fresh", "prerun", "clone"][(i // 3) % 3]
        yield {"kind": kind, "dt": rng.choice([1.0, 0.5, 1.3, 0.25]), "B": rng.randint(1, 2), "seed": rng.randrange(1 << 30),
               "T": rng.randint(8, 14 if th else 10), "neuron": rng.choice(fac.NEURONS + ["ExactNeuron", "ExactNeuron"]), "neuron2": rng.choice(fac.NEURONS + ["ExactNeuron"]),
               "syn": rng.choice(fac.SYNAPSES), "delay": delay, "bias": rng.random() < 0.4, "p": rng.choice([0.4, 0.7]),
               "conn": rng.choice(fac.CONNECTIONS), "transform": None, "conns": [rng.choice(["dense", "direct", "lateral"]) for _ in range(2)],
               "nneurons": rng.randint(1, 2), "combine": rng.choice(["sum", "mean", "max"]), "post": False, "pre": False,
               "trainable_feedback": True, "transforms": False, "capture": False,
               "trainer": trainer, "signs": rng.randrange(4), "trace_mode": rng.choice(["cumulative", "nearest"]),
               "delayed": bool(delay) and rng.random() < 0.5, "inplace": rng.random() < 0.5,
               "reducer": rng.choice(REDUCERS), "reducer_duration": rng.choice([0.0, 3.0, 2.5, 1.0]), "classifier": target == "clone" or rng.random() < 0.5, "vmon": ["ca", "ema", None][(i // 9) % 3], "update_every": [1, 3][(i // 2) % 2], "log_pending": (i // 4) % 2 == 0,
               # the model converted to double precision; a used target cleared before the checkpoint is loaded into it
               "f64": i % 2 == 1, "clear_target": i % 3 != 2,
               "target": target, "reducer_clear_at": rng.choice([None, 2, 4]),
               # histories that started single-slot and were grown by a setter afterwards (connection delay range, reducer duration)
               "grown": rng.random() < 0.4,
               # kernel trainers: tensor-valued kernel arguments (documented: registered as buffers of the cell's state), annealed
               # in place during the run - trainer state a checkpoint has to carry
               "tensor_kwargs": rng.choice(([] if i % 6 == 4 else [[]]) + [["post_learning_rate"], ["post_learning_rate", "pre_learning_rate"]]),
               "anneal_at": sorted(rng.sample(range(1, 9), 2)), "vmon_pre": rng.random() < 0.5,
               "dmon": [True, False][(i // 2) % 2]}


def _mk_reducer(desc, dt, dur):
    r = desc["reducer"]
    if r == "trace":
        return observe.CumulativeTraceReducer(dt, 8.0, 1.0, True, duration=dur, inplace=desc["inplace"])
    if r == "event":
        return observe.EventReducer(dt, lambda x: x.bool(), "nan", dur, inplace=desc["inplace"])
    if r == "ema":
        return observe.EMAReducer(dt, 0.3, duration=dur, inplace=desc["inplace"])
    if r == "ca":
        return observe.CAReducer(dt, duration=dur, inplace=desc["inplace"])
    if r == "passthrough":
        return observe.PassthroughReducer(dt, duration=dur, inplace=desc["inplace"])
    return None


class System:
    def __init__(self, desc):
        self.d = desc
        self.parts = c17._Parts(desc)
        if desc["inplace"]:
            for c in self.parts.conns.values():
                c.synapse.inplace = True
        self.layer = c17._layer(desc, self.parts)
        self.trainer = None
        if desc["trainer"] != "none":
            from rv.monitors import c08
            a, b = c08.SIGNS[desc["signs"]]
            hyper = {"lr_a": a * 0.05, "lr_b": b * 0.05, "trace_mode": desc["trace_mode"], "delayed": desc["delayed"],
                     "tensor_kwargs": desc.get("tensor_kwargs", [])}
            for c in self.parts.conns.values():
                c.updater = c.defaultupdater()
            self.trainer = tr.build_trainer(desc["trainer"], hyper, torch.mean)
            for (cn, nn_), cell in self.layer.named_cells:
                if desc["trainer"] in tr.NEEDS_DELAY and cell.connection.delayedby is None:
                    continue
                self.trainer.register_cell(f"{cn}__{nn_}", cell)
            if desc.get("f64"):
                self.trainer.to(torch.float64)       # a model in double precision is trained by a trainer in double precision
        dt, dur = desc["dt"], desc["reducer_duration"] * desc["dt"]
        if desc.get("grown") and dur > 0:
            self.reducer = _mk_reducer(desc, dt, 0.0)
            if self.reducer is not None:
                self.reducer.duration = dur
        else:
            self.reducer = _mk_reducer(desc, dt, dur)
        self.first_out = sorted(self.parts.neurons)[0]
        # a user-attached monitor that observes a persistent state tensor directly (default single-slot, out-of-place record)
        self.vmon = None
        if desc.get("vmon"):
            red = observe.CAReducer(dt) if desc["vmon"] == "ca" else observe.EMAReducer(dt, 0.3)
            # some of these monitors look at the neuron BEFORE it steps: what they fold first after a restore is restored state
            self.vmon = observe.StateMonitor(red, "voltage", self.parts.neurons[self.first_out], as_prehook=bool(desc.get("vmon_pre")))
            self.vmon.register()
        # a user-attached monitor of another kind: the change of a computed attribute over each connection call
        self.dmon = None
        if desc.get("dmon"):
            first_conn = self.parts.conns[sorted(self.parts.conns)[0]]
            self.dmon = observe.DifferenceMonitor(observe.CAReducer(dt), "synapse.current", first_conn)
            self.dmon.register()
        self.classifier = None
        if desc["classifier"]:
            self.classifier = learn.MaxRateClassifier(tuple(self.parts.neurons[self.first_out].shape), 3, decay=0.1)

    def step(self, x, t):
        outs, _ = c17._step_layer(self.d, self.layer, x)
        if self.trainer is not None:
            if self.d["trainer"] in tr.THREE_FACTOR:
                self.trainer(0.5 if t % 2 == 0 else -0.25)
            else:
                self.trainer()
            if t in self.d.get("anneal_at", ()) and "Kernel" in self.d["trainer"] and self.d.get("tensor_kwargs"):
                for bname, buf in self.trainer.named_buffers():
                    if "tensor_kwargs" in bname and bname.endswith("learning_rate"):
                        buf.mul_(0.6)
                        self.annealed = getattr(self, "annealed", 0) + 1
            if self.d.get("log_pending"):
                # a logger looks at the pending (reduced) update parts after every trainer call: reading is free of side effects
                for c in self.parts.conns.values():
                    for nm in c.updater.names:
                        acc = getattr(c.updater, nm)
                        _ = acc.pos, acc.neg
                self.logged = getattr(self, "logged", 0) + 1
            # updates accumulate over `update_every` steps before they are applied: a checkpoint in between carries pending parts
            if (t + 1) % self.d.get("update_every", 1) == 0:
                self.layer.update()
        o = outs[self.first_out]
        if self.reducer is not None:
            self.reducer(o.float())
            if t == self.d.get("reducer_clear_at"):
                self.reducer.clear(keepshape=True)   # the next observation must be folded as a first observation
        if self.classifier is not None:
            labels = torch.tensor([(t + b) % 3 for b in range(o.shape[0])])
            self.classifier(o.float(), labels)
        return outs

    def modules(self):
        m = {"layer": self.layer}
        if self.trainer is not None:
            m["trainer"] = self.trainer
        if self.reducer is not None:
            m["reducer"] = self.reducer
        if self.classifier is not None:
            m["classifier"] = self.classifier
        if self.vmon is not None:
            m["voltage_monitor"] = self.vmon
        if self.dmon is not None:
            m["difference_monitor"] = self.dmon
        return m

    def checkpoint(self):
        buf = io.BytesIO()
        torch.save({k: m.state_dict() for k, m in self.modules().items()}, buf)
        buf.seek(0)
        return torch.load(buf, weights_only=False)

    def restore(self, sds):
        for k, m in self.modules().items():
            m.load_state_dict(sds[k], strict=True)

    def full_state(self):
        """everything observable: buffers, parameters, extras (pointers, flags, counters) and derived classifier buffers"""
        out = {}
        for k, m in self.modules().items():
            for n, t in m.state_dict().items():
                out[f"{k}.{n}"] = t
            for n, b in m.named_buffers():       # includes non-persistent buffers
                out[f"{k}.buf.{n}"] = b
        return out


def _same(a, b):
    if isinstance(a, torch.Tensor) and isinstance(b, torch.Tensor):
        return a.shape == b.shape and a.dtype == b.dtype and bool(torch.equal(torch.nan_to_num(a.float(), nan=-7.5), torch.nan_to_num(b.float(), nan=-7.5)))
    if isinstance(a, dict) and isinstance(b, dict):
        return a.keys() == b.keys() and all(_same(a[k], b[k]) for k in a)
    return a == b or (a != a and b != b)


def run_case(ctx, desc):
    if len(ctx.samples) < 3:
        ctx.sample(desc)
    tag = f"{desc['kind']}/{desc['trainer']}/{desc['reducer']}/cls{int(desc['classifier'])}"
    try:
        ref = System(desc)
    except Exception as e:  # noqa: BLE001
        return ctx.violation(ctx.exc_signature(e, f"construct.{desc['kind']}.{desc['trainer']}"), f"{type(e).__name__}: {str(e)[:200]}", desc)
    g = torch.Generator().manual_seed(desc["seed"] + 1)
    T = desc["T"]
    xs = [c17._inputs(desc, ref.parts, g) for _ in range(T)]
    other = [c17._inputs(desc, ref.parts, g) for _ in range(7)]
    try:
        ref_outs = [ref.step(x, t) for t, x in enumerate(xs)]
    except Exception as e:  # noqa: BLE001
        return ctx.violation(ctx.exc_signature(e, f"run.{desc['kind']}.{desc['trainer']}"), f"{type(e).__name__}: {str(e)[:200]}", desc)
    ref_final = ref.full_state()
    reuse_k = 1 + desc["seed"] % max(T - 1, 1)
    for k in range(0, T + 1):
        rdesc = {**desc, "checkpoint_at": k}
        ctx.case(f"{tag}/{desc['target']}/k{'0' if k == 0 else 'T' if k == T else 'mid'}/delay{desc['delay']}/{'ip' if desc['inplace'] else 'oop'}{'/grown' if desc.get('grown') else ''}")
        ctx.count("checkpoint_positions_checked")
        if desc.get("vmon") and desc.get("vmon_pre"):
            ctx.count("checkpoints_with_a_monitor_reading_state_before_the_step")
        if desc.get("dmon"):
            ctx.count("checkpoints_with_a_difference_monitor")
        if desc.get("grown") and (desc["delay"] or desc["reducer_duration"]):
            ctx.count("checkpoints_of_histories_grown_by_setters")
        try:
            # RecurrentSerial creates its feedback-spike buffer on the first step, like the lazily shaped recorders
            lazy = desc["trainer"] != "none" or desc["reducer"] != "none" or desc["kind"] == "recurrent" or bool(desc.get("vmon")) or bool(desc.get("dmon"))
            if k == 0 and lazy:
                # a never-run source has unshaped lazily-initialised recorders: nothing to transfer yet
                ctx.count("k0_with_lazy_recorders_skipped")
                continue
            src = System(desc)
            for t in range(k):
                src.step(xs[t], t)
            sds = src.checkpoint()
            dst = System(desc)
            nwarm = 1 if desc["target"] == "fresh" else 3
            n_upd = desc.get("update_every", 1)
            if n_upd > 1 and desc["trainer"] != "none":
                # pending (accumulated, not yet applied) update parts are list entries of the state dict: a strict load needs
                # the target to hold as many of them as the checkpoint, so the target is warmed to the same phase of the
                # update schedule (the mismatching case is probed separately below)
                nwarm = (k % n_upd or n_upd) + (0 if desc["target"] == "fresh" else n_upd)
                ctx.count("checkpoints_with_pending_updates", int(k % n_upd != 0))
            base = 0
            if n_upd > 1 and desc["trainer"] != "none":
                base = k - nwarm             # same phase of the update schedule and of the reward-sign pattern as the source
                while base < 0:
                    base += 2 * n_upd
            for j in range(nwarm):
                dst.step(other[j], base + j)        # warm: shapes exist; state is arbitrary and must be overwritten by the load
            if desc.get("clear_target") and desc["target"] != "fresh":
                dst.layer.clear()
                ctx.count("checkpoints_loaded_into_a_cleared_target" + (".double_precision" if desc.get("f64") else ""))
            if desc["target"] == "clone" and dst.classifier is not None:
                # "another instance of the same configuration" obtained by copying a used one (copy.deepcopy of a plain
                # buffer-only module; the template stays alive).  Modules holding RecordTensors are not cloned this way.
                template = dst.classifier
                dst.classifier = copy.deepcopy(template)
                ctx.count("cloned_targets")
            dst.restore(sds)
        except Exception as e:  # noqa: BLE001
            return ctx.violation(ctx.exc_signature(e, f"checkpoint_restore.{desc['kind']}.{desc['trainer']}.{desc['reducer']}"),
                                 f"checkpoint at step {k} / restore raised {type(e).__name__}: {str(e)[:220]}", rdesc)
        try:
            for t in range(k, T):
                outs = dst.step(xs[t], t)
                for name, o in outs.items():
                    ctx.count("restored_steps_compared")
                    if not _same(o, ref_outs[t][name]):
                        return ctx.violation(f"restore.output_diverges.{desc['kind']}.{desc['trainer']}",
                                             f"checkpoint at {k}: output '{name}' at step {t} differs from the uninterrupted run", rdesc)
        except Exception as e:  # noqa: BLE001
            return ctx.violation(ctx.exc_signature(e, f"continue.{desc['kind']}.{desc['trainer']}"), f"{type(e).__name__}: {str(e)[:200]}", rdesc)
        fin = dst.full_state()
        if fin.keys() != ref_final.keys():
            return ctx.violation("restore.state_keys_differ", f"state entries differ: {sorted(set(fin) ^ set(ref_final))[:5]}", rdesc)
        for name in ref_final:
            if not _same(fin[name], ref_final[name]):
                group = name.split(".")[0]
                leaf = name.split(".")[-1]
                kindname = ("pointer" if "pointer" in str(fin[name]) else leaf) if not isinstance(fin[name], torch.Tensor) else leaf
                return ctx.violation(f"restore.final_state_differs.{group}.{_leafclass(name)}",
                                     f"checkpoint at {k}: final '{name}' differs from the uninterrupted run", rdesc)
        ctx.count("final_states_compared")
        if k == reuse_k:
            # the same deserialised checkpoint object restores a SECOND instance after the first one has been run on: the
            # checkpoint is a value, so what the first replica did since must not show in the second
            ctx.count("checkpoints_loaded_a_second_time_after_the_first_replica_ran")
            try:
                dst2 = System(desc)
                for j in range(nwarm):
                    dst2.step(other[j], base + j)
                dst2.restore(sds)
                for t in range(k, T):
                    outs = dst2.step(xs[t], t)
                    for name, o in outs.items():
                        if not _same(o, ref_outs[t][name]):
                            return ctx.violation(f"restore.second_load_of_one_checkpoint.output_diverges.{desc['kind']}",
                                                 f"checkpoint at {k} loaded a second time (after the first restored instance ran): "
                                                 f"output '{name}' at step {t} differs from the uninterrupted run", rdesc)
                fin2 = dst2.full_state()
            except Exception as e:  # noqa: BLE001
                return ctx.violation(ctx.exc_signature(e, f"second_load.{desc['kind']}.{desc['trainer']}"), f"{type(e).__name__}: {str(e)[:200]}", rdesc)
            for name in ref_final:
                if name not in fin2 or not _same(fin2[name], ref_final[name]):
                    return ctx.violation(f"restore.second_load_of_one_checkpoint.final_state_differs.{_leafclass(name)}",
                                         f"checkpoint at {k} loaded a second time: final '{name}' differs from the uninterrupted run", rdesc)
        if getattr(dst, "logged", 0) and n_upd > 1 and k % n_upd != 0:
            ctx.count("checkpoints_with_pending_updates_into_a_target_whose_pending_parts_were_read")
        if getattr(src, "annealed", 0):
            ctx.count("checkpoints_after_in_place_changes_of_trainer_buffers")
    # ---- a target in a different phase of the update schedule (an "arbitrary prior state"): the checkpoint holds two pending
    # update parts per accumulator, the target one.  The uninterrupted run applies BOTH checkpointed parts at the next update.
    if desc.get("update_every", 1) > 1 and desc["trainer"] != "none" and T > 4:
        rdesc = {**desc, "checkpoint_at": 2, "target_phase": 1}
        ctx.case(f"{tag}/phase_mismatch")
        ctx.count("phase_mismatch_probes")
        src, dst = System(desc), System(desc)
        for t in range(2):
            src.step(xs[t], t)
        dst.step(other[0], 0)
        sds = src.checkpoint()
        try:
            dst.restore(sds)
        except RuntimeError as e:
            if "updates_" in str(e) and ("Unexpected key" in str(e) or "Missing key" in str(e)):
                return ctx.violation("restore.refused.pending_update_parts_count_differs",
                                     "a checkpoint taken between two applications of accumulated updates cannot be loaded into an "
                                     "instance holding a different number of pending parts: load_state_dict refuses (strict) - or "
                                     "would drop them (strict=False)", rdesc, {"error": str(e)[:300]})
            raise
        for t in range(2, T):
            outs = dst.step(xs[t], t)
        fin = dst.full_state()
        for name in ref_final:
            if name in fin and not _same(fin[name], ref_final[name]):
                return ctx.violation(f"restore.phase_mismatch.final_state_differs.{_leafclass(name)}",
                                     f"final '{name}' differs from the uninterrupted run", rdesc)


def _leafclass(name):
    for key in ("_extra_state", "weight", "bias", "delay", "adaptation", "voltage", "refrac", "current", "spike", "data", "rates",
                "assignments", "occurrences", "proportions", "feedback_spikes"):
        if key in name:
            return key
    return "other"
