"""C04 - synapse currents equal the impulse-response sum; delayed reads see the past.

M-model (closed-form kernel sums over the recorded input list, float64) + M-rel (in-place twin
fed the same history must agree bit-for-bit on every observable).
"""

from __future__ import annotations

import math

import numpy as np
import torch

import inferno
from inferno.neural import DeltaCurrent, DeltaPlusCurrent, SingleExponentialCurrent, DoubleExponentialCurrent

KINDS = ["delta", "deltaplus", "single", "double"]
FRACS = {"on": 0.0, "q1": 0.25, "q2": 0.5, "q3": 0.75, "lo": 0.1, "hi": 0.9}


def _cob(desc):
    v = desc["cob"]
    return float(v) if isinstance(v, str) else v


def generate(ctx):
    rng = ctx.rng
    th = ctx.tier == "thorough"
    for i in range(2600 if th else 110):
        kind = KINDS[i % 4]
        dt = rng.choice([1.0, 0.5, 1.3])
        dk = rng.choice([0.0, 1.0, 3.0, 2.5, 5.0, 0.5, 0.4])     # including maximum delays shorter than one step
        tol = rng.choice([0.0, 1e-3])
        interp = rng.choice(["previous", "nearest"])
        if interp == "nearest" and dk == 2.5:
            dt = rng.choice([1.0, 0.5])  # the clamped limit sits on the nearest tie: keep it exactly representable
        T = rng.randint(8, 28)
        train = rng.choice(["random", "random", "ones", "impulse", "alternating", "silent"])
        queries = []
        for t in range(T):
            qs = []
            if rng.random() < 0.6:
                for _ in range(rng.randint(1, 3)):
                    qs.append({"kind": rng.choice(["in", "in", "in", "snap", "snap", "limit", "beyond", "negative", "band"]),
                               "D": rng.choice([0, 0, 1, 2]), "what": rng.choice(["current", "spike"]),
                               "qseed": rng.randrange(1 << 30)})
            queries.append(qs)
        yield {"kind": kind, "dt": dt, "delay": dk * dt, "delay_steps": dk, "tol": tol, "T": T, "train": train,
               "interp": interp, "cob": rng.choice([0.0, None, -7.5, -7.5, "nan", "inf", "-inf"]),      # (non-finite marker values spelled as strings)
               "sob": rng.choice([False, None, True]), "B": rng.randint(1, 3),
               "shape": list(rng.choice([(3,), (2, 2), (1,)])), "inplace": rng.random() < 0.5,
               **({"Q": rng.choice([1.0, 2.5, -1.5]), "tc": rng.choice([2.0, 5.0, 20.0]), "tr": rng.choice([0.5, 1.0])}
                  if rng.random() < 0.65 else
                  {"Q": round(rng.choice([-1, 1]) * rng.uniform(0.05, 4.0), 3), "tc": round(rng.uniform(0.8, 40.0), 3),
                   "tr": round(rng.uniform(0.1, 3.0), 3)}),
               "p": rng.choice([0.2, 0.5]), "seed": rng.randrange(1 << 30), "queries": queries,
               # step time reached through the dt setter after construction instead of the constructor
               "built_dt": rng.choice([None, None, None, 2 * dt, 0.5 * dt, dt + 0.25]),
               # clear() in the middle of the run: everything before it equals the resting state from then on
               "clear_at": rng.choice([None, None, 3, 5, 8]), "via_partial": rng.random() < 0.4,
               # built with another maximum delay: half a step shorter (same step count when dk is whole), one step longer, zero
               "built_delay": rng.choice([None, None, None, max(dk - 0.5, 0.0) * dt, (dk + 1) * dt, 0.0]),
               # built with another charge, re-tuned through the attribute before the first input
               "built_charge": rng.choice([None, None, 1.0, -3.0, 0.25])}


def _build(desc, inplace):
    k = desc["kind"]
    common = dict(spike_charge=desc["Q"], delay=desc["delay"], interp_tol=desc["tol"], current_overbound=_cob(desc),
                  spike_overbound=desc["sob"], batch_size=desc["B"], inplace=inplace)
    shape = tuple(desc["shape"])
    final_dt = desc["dt"]
    final_delay = desc["delay"]
    if desc.get("built_delay") is not None:
        desc = {**desc, "delay": desc["built_delay"]}
        common["delay"] = desc["built_delay"]
    if desc.get("built_charge"):
        final_q = desc["Q"]
        desc = {**desc, "Q": desc["built_charge"]}
        common["spike_charge"] = desc["built_charge"]
    if desc.get("built_dt"):
        desc = {**desc, "dt": desc["built_dt"]}
    if desc.get("via_partial"):
        # the documented common-signature route (what connections use): hyper-parameters bound first, geometry later
        pk = dict(interp_tol=desc["tol"], current_overbound=_cob(desc), spike_overbound=desc["sob"], inplace=inplace)
        if k == "delta":
            ctor = DeltaCurrent.partialconstructor(desc["Q"], desc["interp"], **pk)
        elif k == "deltaplus":
            ctor = DeltaPlusCurrent.partialconstructor(desc["Q"], desc["interp"], **pk)
        elif k == "single":
            ctor = SingleExponentialCurrent.partialconstructor(desc["Q"], desc["tc"], desc["interp"], **pk)
        else:
            ctor = DoubleExponentialCurrent.partialconstructor(desc["Q"], desc["tc"] + desc["tr"], desc["tr"], desc["interp"], **pk)
        s = ctor(shape, desc["dt"], desc["delay"], desc["B"])
    elif k == "delta":
        s = DeltaCurrent(shape, desc["dt"], interp_mode=desc["interp"], **common)
    elif k == "deltaplus":
        s = DeltaPlusCurrent(shape, desc["dt"], interp_mode=desc["interp"], **common)
    elif k == "single":
        s = SingleExponentialCurrent(shape, desc["dt"], time_constant=desc["tc"], spike_interp_mode=desc["interp"], **common)
    else:
        s = DoubleExponentialCurrent(shape, desc["dt"], tc_decay=desc["tc"] + desc["tr"], tc_rise=desc["tr"],
                                     spike_interp_mode=desc["interp"], **common)
    if desc.get("built_charge"):
        s.spike_charge = final_q     # the charge is a plain attribute every step reads: re-tuned before any input arrives
    if s.dt != final_dt:
        s.dt = final_dt
    if desc.get("built_delay") is not None and desc["built_delay"] != final_delay:
        s.delay = final_delay        # the maximum delay reached through the documented setter (also within one step count)
    s.to(torch.float64)
    return s


def _np(t):
    return t.detach().to(torch.float64).numpy()


class _Oracle:
    def __init__(self, desc, full):
        self.d = desc
        self.full = full
        self.spk = []   # per step bool arrays
        self.inj = []

    def step(self, s, i):
        self.spk.append(s.astype(np.float64))
        self.inj.append(i)

    def _kernel(self, age_steps):
        d = self.d
        age = age_steps * d["dt"]
        k = d["kind"]
        if k == "single":
            return d["Q"] / d["tc"] * math.exp(-age / d["tc"])
        td, tr = d["tc"] + d["tr"], d["tr"]
        return d["Q"] / (td - tr) * (math.exp(-age / td) - math.exp(-age / tr))

    def _parts(self, t):
        """double exponential: (pos, neg) branches at step t"""
        d = self.d
        td, tr = d["tc"] + d["tr"], d["tr"]
        pos, neg = np.zeros(self.full), np.zeros(self.full)
        for f in range(0, t + 1):
            age = (t - f) * d["dt"]
            c = d["Q"] / (td - tr)
            pos += c * math.exp(-age / td) * self.spk[f]
            neg += c * math.exp(-age / tr) * self.spk[f]
        return pos, neg

    def current(self, t):
        """closed-form current after step t (t < 0: resting state)"""
        if t < 0:
            return np.zeros(self.full)
        d = self.d
        k = d["kind"]
        if k == "delta":
            return d["Q"] / d["dt"] * self.spk[t]
        if k == "deltaplus":
            return d["Q"] / d["dt"] * self.spk[t] + self.inj[t]
        out = np.zeros(self.full)
        for f in range(0, t + 1):
            out += self._kernel(t - f) * self.spk[f]
        return out

    def spike(self, t):
        return np.zeros(self.full) if t < 0 else self.spk[t]

    def at(self, what, t, k, frac):
        """value `k+frac` steps before step t by the synapse's documented rule"""
        d = self.d
        if frac == 0.0:
            return self.current(t - k) if what == "current" else self.spike(t - k)
        el = d["dt"] * (1 - frac)
        older_t, newer_t = t - k - 1, t - k
        pick_newer = (el / d["dt"] > 0.5) if d["interp"] == "nearest" else False
        if what == "spike":
            return self.spike(newer_t if pick_newer else older_t)
        kind = d["kind"]
        if kind in ("delta", "deltaplus"):
            return self.current(newer_t if pick_newer else older_t)
        if kind == "single":
            return self.current(older_t) * math.exp(-el / d["tc"])
        if older_t < 0:
            return np.zeros(self.full)
        pos, neg = self._parts(older_t)
        return pos * math.exp(-el / (d["tc"] + d["tr"])) - neg * math.exp(-el / d["tr"])


def _selector(desc, q, full, g):
    """per-element (k, frac, class) and the selector tensor in ms"""
    dt, dk, tol = desc["dt"], desc["delay_steps"], desc["tol"]
    D = q["D"]
    shape = full + ((D,) if D else ())
    n = int(np.prod(shape))
    ks, frs, cls, vals = [], [], [], []
    kmax = int(math.floor(dk))
    for _ in range(n):
        kind = q["kind"]
        if kind == "in" and dk > 0:
            k = int(g.integers(0, kmax + 1))
            tok = ["on", "on", "q1", "q2", "q3", "lo", "hi"][int(g.integers(0, 7))]
            fr = FRACS[tok]
            if k + fr > dk:
                fr = 0.0
            if abs(fr - 0.5) < 1e-9 and desc["interp"] == "nearest" and dt not in (1.0, 0.5):
                fr = 0.25  # keep clear of the nearest tie on non-representable grids
            v = (k + fr) * dt
            c = "in"
        elif kind == "snap" and dk > 0 and tol > 0:
            # off the grid by less than the synapse's tolerance: must read exactly step k
            k = int(g.integers(0, kmax + 1))
            sgn = 1.0 if (g.random() < 0.5 or k == 0) else -1.0
            if k >= dk:
                sgn = -1.0 if k > 0 else 0.0
            fr, v, c = 0.0, k * dt + sgn * tol / 2, "in"
        elif kind == "limit" or (kind in ("in", "snap") and (dk == 0 or tol == 0)):
            if g.random() < 0.5 or dk == 0:
                k, fr, v, c = 0, 0.0, 0.0, "in"
            else:
                k, fr = kmax, dk - kmax
                v, c = desc["delay"], "in"
        elif kind == "band":
            side = g.random() < 0.5
            if tol > 0:
                if side:
                    k, fr, v, c = kmax, dk - kmax, desc["delay"] + tol / 2, "in"
                else:
                    k, fr, v, c = 0, 0.0, -tol / 2, "in"
            else:
                k, fr, v, c = 0, 0.0, 0.0, "in"
        elif kind == "beyond":
            extra = [0.5, 1.0, 3.7][int(g.integers(0, 3))] * dt + 2 * tol
            k, fr, v, c = kmax, dk - kmax, desc["delay"] + extra, "over"
        else:  # negative
            k, fr, v, c = 0, 0.0, -([0.5, 1.0][int(g.integers(0, 2))] * dt + 2 * tol), "over"
        ks.append(k); frs.append(fr); cls.append(c); vals.append(v)
    sel = torch.tensor(vals, dtype=torch.float64).reshape(shape)
    return ks, frs, cls, sel, shape


def run_case(ctx, desc):
    if ctx.counters.get("sampled." + desc["kind"], 0) == 0:
        ctx.count("sampled." + desc["kind"])
        ctx.sample({**desc, "queries": [q for q in desc["queries"] if q][:2]})
    g = np.random.default_rng(desc["seed"])
    full = (desc["B"],) + tuple(desc["shape"])
    kind = desc["kind"]
    try:
        syn = _build(desc, desc["inplace"])
        twin = _build(desc, not desc["inplace"])
    except Exception as e:  # noqa: BLE001
        return ctx.violation(ctx.exc_signature(e, f"construct.{kind}"), f"{type(e).__name__}: {str(e)[:140]}", desc)
    if desc.get("built_delay") is not None and desc["built_delay"] != desc["delay"]:
        ctx.count("synapses_redelayed_through_the_setter")
    if desc.get("built_charge") and desc["built_charge"] != desc["Q"]:
        ctx.count("synapses_with_the_charge_retuned_after_construction")
    orc = _Oracle(desc, full)
    T = desc["T"]
    tag = f"{kind}/dt{desc['dt']}/d{desc['delay_steps']}/tol{desc['tol']}/{desc['interp']}"
    t0 = 0
    for tabs in range(T):
        if tabs and desc.get("clear_at") == tabs:
            syn.clear()
            twin.clear()
            orc = _Oracle(desc, full)
            t0 = tabs
            ctx.count("clears")
        t = tabs - t0      # time since the last clear: the oracle knows nothing older
        tr = desc["train"]
        if tr == "random":
            s = g.random(full) < desc["p"]
        elif tr == "ones":
            s = np.ones(full, dtype=bool)
        elif tr == "impulse":
            s = np.full(full, tabs == 2)
        elif tr == "alternating":
            s = np.full(full, tabs % 2 == 0)
        else:
            s = np.zeros(full, dtype=bool)
        inj = g.normal(size=full) if kind == "deltaplus" else np.zeros(full)
        orc.step(s, inj)
        st = torch.from_numpy(s.astype(np.float64))  # float64 0/1: a bool input would make the charge term float32
        rdesc = {**desc, "T": tabs + 1, "queries": desc["queries"][: tabs + 1]}
        try:
            args = (st, torch.from_numpy(inj.copy())) if kind == "deltaplus" else (st,)
            out = syn(*args)
            out2 = twin(*args)
        except Exception as e:  # noqa: BLE001
            return ctx.violation(ctx.exc_signature(e, f"forward.{kind}"), f"forward raised {type(e).__name__}: {str(e)[:140]}", rdesc)
        exp = orc.current(t)
        ctx.case(f"{tag}/step/{desc['train']}/{'ip' if desc['inplace'] else 'oop'}/B{desc['B']}")
        ctx.count("steps_checked")
        for name, got in (("forward_return", out), ("current_attribute", syn.current)):
            if tuple(got.shape) != full or not np.allclose(_np(got), exp, rtol=1e-9, atol=1e-10):
                return ctx.violation(f"{kind}.current.{name}", f"step {t}: current differs from the impulse-response sum", rdesc,
                                     {"got": _np(got).tolist(), "expected": exp.tolist()})
        if syn.spike.dtype != torch.bool or not np.array_equal(_np(syn.spike), s.astype(np.float64)):
            return ctx.violation(f"{kind}.spike_record", f"step {t}: stored spikes differ from the input spikes", rdesc)
        if not (torch.equal(out, out2) and torch.equal(syn.current, twin.current) and torch.equal(syn.spike, twin.spike)):
            return ctx.violation(f"{kind}.inplace_vs_outofplace.step", "in-place and out-of-place twins disagree", rdesc)
        ctx.count("twin_comparisons")
        for q in desc["queries"][tabs]:
            gq = np.random.default_rng(q["qseed"])
            ks, frs, cls, sel, shp = _selector(desc, q, full, gq)
            what = q["what"]
            fn, fn2 = (syn.current_at, twin.current_at) if what == "current" else (syn.spike_at, twin.spike_at)
            ob = _cob(desc) if what == "current" else desc["sob"]
            if what == "current" and isinstance(desc["cob"], str):
                ctx.count("queries_with_nonfinite_out_of_bounds_value")
            sub = f"{what}_at.{q['kind']}.overbound_{'none' if ob is None else 'value'}.tol{'0' if desc['tol'] == 0 else '+'}" \
                  f".delay{'0' if desc['delay'] == 0 else '+'}"
            ctx.case(f"{tag}/{sub}/D{q['D']}")
            ctx.count("queries_checked")
            ctx.count(f"queries.{q['kind']}")
            try:
                got = fn(sel.clone())
                got2 = fn2(sel.clone())
            except Exception as e:  # noqa: BLE001
                return ctx.violation(ctx.exc_signature(e, f"{kind}.{sub}"), f"{what}_at raised {type(e).__name__}: {str(e)[:140]}",
                                     rdesc, {"selector": sel.tolist()})
            if tuple(got.shape) != shp:
                return ctx.violation(f"{kind}.{what}_at.shape", f"shape {tuple(got.shape)} expected {shp}", rdesc)
            if what == "spike" and got.dtype != torch.bool:
                return ctx.violation(f"{kind}.spike_at.dtype", f"dtype {got.dtype}", rdesc)
            if not torch.equal(got.nan_to_num(nan=-12345.0) if got.is_floating_point() else got,
                               got2.nan_to_num(nan=-12345.0) if got2.is_floating_point() else got2):
                return ctx.violation(f"{kind}.inplace_vs_outofplace.{what}_at", "twins disagree on a delayed read", rdesc)
            if kind == "double" and what == "current" and (desc["cob"] in (None, 0.0) or all(c == "in" for c in cls)):
                # (beyond the range each branch is replaced by the configured out-of-bounds value on its own, so the difference
                # is only meaningful in range, or when that value is 0 / the value at the limit)
                # the two branches of the difference of exponentials are readable on their own: rise subtracted from decay
                try:
                    parts = syn.pos_current_at(sel.clone()) - syn.neg_current_at(sel.clone())
                except Exception as e:  # noqa: BLE001
                    return ctx.violation(ctx.exc_signature(e, "double.component_current_at"), f"{type(e).__name__}: {str(e)[:140]}", rdesc)
                ctx.count("component_reads_checked")
                if tuple(parts.shape) != tuple(got.shape) or not torch.allclose(parts, got, rtol=1e-9, atol=1e-10):
                    return ctx.violation("double.current_at_ne_pos_minus_neg", "current_at differs from pos_current_at - neg_current_at",
                                         rdesc, {"selector": sel.tolist()})
            gflat = _np(got).reshape(-1)
            D = q["D"]
            per = D if D else 1
            for idx in range(gflat.size):
                e = np.unravel_index(idx // per, full)
                k, fr, c = ks[idx], frs[idx], cls[idx]
                base = orc.at(what, t, k, fr)[e]
                if c == "over" and ob is not None:
                    expv = float(ob)
                else:
                    expv = base  # in range, or the value at the clamped limit
                if what == "spike":
                    ok = bool(gflat[idx]) == bool(expv)
                else:
                    ok = np.isclose(gflat[idx], expv, rtol=1e-9, atol=1e-10, equal_nan=True)
                if not ok:
                    where = "in_range" if c == "in" else ("beyond_range.overbound_value" if ob is not None else "beyond_range.limit_value")
                    grid = "ongrid" if fr == 0.0 else "offgrid"
                    return ctx.violation(f"{kind}.{what}_at.{where}.{grid}",
                                         f"step {t}: {what} at selector {sel.reshape(-1)[idx].item()} ms = {gflat[idx]}, expected {expv}",
                                         rdesc, {"k": k, "frac": fr, "class": c, "selector": sel.tolist()})
