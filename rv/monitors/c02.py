"""C02 - time-indexed select / insert hit the right samples and interpolate between them.

M-model with argument-spy interpolation / extrapolation.  Times are CONSTRUCTED as
t = k*dt + delta (integer k, symbolic delta), so the oracle knows the slot, whether the time is on
the grid, the older / newer bracketing slots and the elapsed time without dividing by dt.
"""

from __future__ import annotations

import math

import numpy as np
import torch

import inferno
from inferno import RecordTensor
from inferno import functional as inff

from rv.models.ring import Ring

DELTAS_ON = ("0", "+in", "-in")
DELTAS_OFF = ("+out", "-out", "q1", "q2", "q3", "hi")
TINY = 1e-9

PAIRS = [  # (extrap, interp, kwargs)
    ("previous", "previous", {}),
    ("next", "next", {}),
    ("neighbors", "nearest", {}),
    ("neighbors", "previous", {}),
    ("neighbors", "next", {}),
    ("nearest", "nearest", {}),
    ("linear_forward", "linear", {}),
    ("linear_backward", "linear", {}),
    ("expdecay", "expdecay", {"time_constant": 7.5}),
    ("expratedecay", "expratedecay", {"rate_constant": 0.13}),
]
INTERPS = ["previous", "next", "nearest", "linear", "expdecay", "expratedecay"]


def _delta(tok, dt, tol):
    eps = tol if tol > 0 else 0.0
    if tok == "0":
        return 0.0
    if tok == "+in":
        return eps / 2
    if tok == "-in":
        return -eps / 2
    if tok == "+out":
        return 2 * eps if eps else TINY
    if tok == "-out":
        return -(2 * eps if eps else TINY)
    if tok == "q1":
        return dt / 4
    if tok == "q2":
        return dt / 2
    if tok == "q3":
        return 3 * dt / 4
    if tok == "hi":
        return dt - (2 * eps if eps else TINY)
    raise AssertionError(tok)


def _classify(k, tok, dt, tol, n):
    """-> dict(t, ongrid, kc (older steps), kf (newer steps), elapsed, inrange)"""
    d = _delta(tok, dt, tol)
    t = k * dt + d
    ongrid = tok in DELTAS_ON or d == 0.0
    lo, hi = -tol, dt * (n - 1) + tol
    if ongrid:
        inrange = 0 <= k <= n - 1
        return {"t": t, "ongrid": True, "k": k, "inrange": inrange}
    if d > 0:
        kc, kf, el = k + 1, k, dt - d
    else:
        kc, kf, el = k, k - 1, -d
    # off-grid times are in range iff strictly inside [0, dt*(n-1)] by construction (|d| > tol)
    inrange = (t >= lo) and (t <= hi) and kf >= 0 and kc <= n - 1
    return {"t": t, "ongrid": False, "kc": kc, "kf": kf, "elapsed": el, "inrange": inrange}


def _pick(rng, n, want_in=True, allow_off=True):
    """(k, tok) in range (or out of range when want_in False)."""
    for _ in range(200):
        k = rng.choice([0, n - 1, rng.randrange(n)])
        tok = rng.choice(DELTAS_ON + DELTAS_OFF if allow_off and n > 1 else DELTAS_ON)
        c = _classify(k, tok, 1.0, 1e-6, n)
        if c["inrange"] == want_in:
            return k, tok
    return (0, "0") if want_in else (n - 1, "+out")


def generate(ctx):
    rng = ctx.rng
    ncases = 2600 if ctx.tier == "thorough" else 260
    for _ in range(ncases):
        n = rng.choice([1, 2, 2, 3, 4, 5, 8])
        shape = rng.choice([(), (1,), (3,), (2, 2), (2, 1, 3)])
        numel = int(np.prod(shape)) if shape else 1
        dt = rng.choice([1.0, 0.5, 0.1, 1.3])
        ops = []
        for _ in range(rng.randint(12, 30)):
            tol = rng.choice([0.0, 1e-6, 1e-3])
            r = rng.random()
            op = {"tol": tol, "off": rng.choice([0, 1, 1, rng.randint(0, n)])}
            if r < 0.5:
                op["op"] = "select"
                op["mode"] = rng.choice(["scalar", "tensor", "tensorD", "both"])
                D = rng.randint(1, 3) if op["mode"] == "tensorD" else 1
                op["D"] = D
                cnt = 1 if op["mode"] in ("scalar", "both") else numel * D
                picks = [_pick(rng, n) for _ in range(cnt)]
                op["k"] = [p[0] for p in picks]
                op["tok"] = [p[1] for p in picks]
                op["interp"] = rng.choice(["spy", "spy"] + INTERPS)
            elif r < 0.85:
                op["op"] = "insert"
                op["mode"] = rng.choice(["scalar", "tensor"])
                cnt = 1 if op["mode"] == "scalar" else numel
                picks = [_pick(rng, n) for _ in range(cnt)]
                op["k"] = [p[0] for p in picks]
                op["tok"] = [p[1] for p in picks]
                op["extrap"] = rng.choice(["spy", "spy", "pair"])
                op["pair"] = rng.randrange(len(PAIRS))
                op["adjust"] = rng.random() < 0.5
                if op["extrap"] == "pair" and PAIRS[op["pair"]][0].startswith("linear"):
                    # linear extrapolation divides by the elapsed time: keep it well conditioned
                    op["tok"] = [t if t in DELTAS_ON else rng.choice(["q1", "q2", "q3"]) for t in op["tok"]]
                    op["k"] = [min(k, max(n - 2, 0)) if t not in DELTAS_ON else k for k, t in zip(op["k"], op["tok"])]
                op["inplace"] = rng.random() < 0.5
                # the observation's own element type (spikes come as bool / integers, other code may hand in float64): the
                # documented conversion to the record's type happens after extrapolation
                op["obs_as"] = rng.choice([None, None, "int64", "other_float", "int32"])
            else:
                op["op"] = rng.choice(["select_oor", "insert_oor"])
                op["mode"] = rng.choice(["scalar", "tensor"])
                cnt = 1 if op["mode"] == "scalar" else numel
                picks = [_pick(rng, n) for _ in range(cnt)]
                bad = rng.randrange(cnt)
                picks[bad] = rng.choice([(0, "-out"), (n - 1, "+out"), (n - 1, "q2"), (n, "0"), (-1, "0")])
                op["k"] = [p[0] for p in picks]
                op["tok"] = [p[1] for p in picks]
                if op["tol"] == 0.0 and rng.random() < 0.5:
                    op["tol"] = 1e-6
            ops.append(op)
        yield {"N": n, "shape": list(shape), "dt": dt, "ptr": rng.randrange(n),
               "dtype": rng.choice(["float64", "float64", "float32"]),
               "timedtype": "float64", "ops": ops}
    # float32 time tensors: tolerance >= 1e-3 and exactly representable grids only
    for _ in range(ncases // 6):
        n = rng.choice([2, 3, 5])
        shape = rng.choice([(3,), (2, 2)])
        numel = int(np.prod(shape))
        ops = []
        for _ in range(12):
            picks = [_pick(rng, n) for _ in range(numel)]
            ops.append({"op": "select", "mode": "tensor", "D": 1, "tol": 1e-3, "off": rng.randint(0, n),
                        "k": [p[0] for p in picks], "tok": [p[1] for p in picks],
                        "interp": rng.choice(["spy", "previous", "next", "linear"])})
        yield {"N": n, "shape": list(shape), "dt": rng.choice([1.0, 0.5]), "ptr": rng.randrange(n),
               "dtype": "float32", "timedtype": "float32", "ops": ops}
    # records whose slots hold non-finite placeholders (the NaN / inf fill of an event record): an insert exactly on a step
    # writes the observation there whatever the slot held and whatever the kernel would have derived from the neighbours
    for _ in range(ncases // 5):
        n = rng.choice([2, 3, 5])
        yield {"part": "nonfinite", "N": n, "shape": list(rng.choice([(3,), (2, 2), ()])), "dt": rng.choice([1.0, 0.5, 1.3]),
               "fill": rng.choice(["nan", "inf", "-inf", "mixed"]), "pair": rng.randrange(len(PAIRS)), "ptr": rng.randrange(n),
               "mode": rng.choice(["tensor", "tensor", "scalar"]), "inplace": rng.random() < 0.5, "reps": rng.randint(2, 6),
               "seed": rng.randrange(1 << 30)}
    # records whose storage is not floating point (spike histories are bool, counters integer): the elapsed time handed
    # to the kernel is still a real number, and the scalar and tensor forms still agree
    for _ in range(ncases // 5):
        n = rng.choice([2, 3, 5])
        shape = rng.choice([(3,), (2, 2), ()])
        numel = int(np.prod(shape)) if shape else 1
        qs = []
        for _ in range(10):
            k, tok = _pick(rng, n)
            qs.append({"k": k, "tok": tok, "tol": rng.choice([0.0, 1e-6, 1e-3]), "off": rng.randint(0, n),
                       "interp": rng.choice(["spy", "spy", "nearest", "previous", "next", "linear", "linear"])})
        yield {"part": "intstore", "N": n, "shape": list(shape), "dt": rng.choice([1.0, 0.5, 0.1, 1.3]), "ptr": rng.randrange(n),
               "dtype": rng.choice(["int64", "int32", "bool", "uint8"]), "queries": qs}


# ------------------------------------------------------------------------------------------

class _Spy:
    """interpolation / extrapolation callables that record their arguments"""

    def __init__(self):
        self.calls = []

    def interp(self, prev_data, next_data, sample_at, step_time, **kw):
        out = prev_data.to(torch.float64) * 4099.0 + next_data.to(torch.float64) * 3.0 + 0.5
        out = out.to(prev_data.dtype)
        self.calls.append(("interp", prev_data.clone(), next_data.clone(), sample_at.clone(), step_time, out.clone()))
        return out

    def extrap(self, sample, sample_at, prev_data, next_data, step_time, **kw):
        a = (sample * 2 + 1_000_000).to(sample.dtype)
        b = (sample * 2 + 2_000_000).to(sample.dtype)
        a, b = torch.broadcast_tensors(a, prev_data)[0].clone(), torch.broadcast_tensors(b, prev_data)[0].clone()
        self.calls.append(("extrap", sample.clone(), sample_at.clone(), prev_data.clone(), next_data.clone(),
                           step_time, a.clone(), b.clone()))
        return a, b


def _np(t):
    return t.detach().to(torch.float64).numpy()


def _interp_ref(name, older, newer, el, dt, kw):
    if name == "previous":
        return older
    if name == "next":
        return newer
    if name == "nearest":
        return newer if el / dt > 0.5 else older
    if name == "linear":
        return older + (newer - older) / dt * el
    if name == "expdecay":
        return older * math.exp(-el / kw["time_constant"])
    if name == "expratedecay":
        return older * math.exp(-el * kw["rate_constant"])
    raise AssertionError(name)


def _kw_for(name):
    return {"expdecay": {"time_constant": 7.5}, "expratedecay": {"rate_constant": 0.13}}.get(name, {})


def _setup(desc):
    n, shape = desc["N"], tuple(desc["shape"])
    dtp = torch.float64 if desc["dtype"] == "float64" else torch.float32
    owner = inferno.Module()
    # duration chosen so that ceil(duration/dt) == n exactly: (n - 0.5) * dt
    RecordTensor.create(owner, "rec", desc["dt"], (n - 0.5) * desc["dt"] if n > 1 else 0.0,
                        torch.zeros(shape, dtype=dtp), inclusive=False)
    rt = owner.rec
    assert rt.recordsz == n, (rt.recordsz, n)
    model = Ring(n, shape)
    numel = int(np.prod(shape)) if shape else 1
    for i in range(n):
        x = ((i + 1) * 32 + np.arange(numel, dtype=np.float64)).reshape(shape)
        rt.push(torch.from_numpy(x).to(dtp))
        model.push(x)
    if desc["ptr"]:
        rt.incr(desc["ptr"])
        model.incr(desc["ptr"])
    return owner, rt, model, dtp


def _elems(shape):
    return list(np.ndindex(*shape)) if shape else [()]


class _ArgSpy:
    """returns the older sample (valid in any storage dtype) and records what it was given"""

    def __init__(self):
        self.calls = []

    def __call__(self, prev_data, next_data, sample_at, step_time, **kw):
        self.calls.append((prev_data.clone(), next_data.clone(), sample_at.clone(), step_time))
        return prev_data.clone()


def _intstore(ctx, desc):
    n, shape, dt = desc["N"], tuple(desc["shape"]), desc["dt"]
    dtp = {"int64": torch.int64, "int32": torch.int32, "bool": torch.bool, "uint8": torch.uint8}[desc["dtype"]]
    owner = inferno.Module()
    RecordTensor.create(owner, "rec", dt, (n - 0.5) * dt, torch.zeros(shape, dtype=dtp), inclusive=False)
    rt = owner.rec
    model = Ring(n, shape)
    numel = int(np.prod(shape)) if shape else 1
    for i in range(n):
        x = ((i * 7 + np.arange(numel)) % (2 if desc["dtype"] == "bool" else 200)).astype(np.float64).reshape(shape)
        rt.push(torch.from_numpy(x).to(dtp))
        model.push(x)
    if desc["ptr"]:
        rt.incr(desc["ptr"])
        model.incr(desc["ptr"])
    elems = _elems(shape)
    for qi, q in enumerate(desc["queries"]):
        rdesc = {**desc, "queries": desc["queries"][: qi + 1]}
        c = _classify(q["k"], q["tok"], dt, q["tol"], n)
        if not c["inrange"]:
            continue
        off, tol, name = q["off"], q["tol"], q["interp"]
        if name == "linear" and desc["dtype"] in ("bool", "uint8"):
            name = "nearest"       # (the linear kernel subtracts its brackets: not defined for booleans, wraps for unsigned integers)
        ctx.case(f"intstore/{desc['dtype']}/{name}/{'ongrid' if c['ongrid'] else 'offgrid'}/N{n}/dt{dt}")
        ctx.count("nonfloat_storage_selects")
        outs = []
        for mode in ("scalar", "tensor"):
            spy = _ArgSpy()
            fn = spy if name == "spy" else getattr(inff, "interp_" + name)
            t = c["t"] if mode == "scalar" else torch.full(shape, c["t"], dtype=torch.float64)
            try:
                got = rt.select(t, fn, tolerance=tol, offset=off)
            except Exception as e:  # noqa: BLE001
                return ctx.violation(ctx.exc_signature(e, f"intstore.select.{mode}.{name}"), f"{type(e).__name__}: {str(e)[:140]}", rdesc)
            if (got.dtype != dtp and name != "linear") or tuple(got.shape) != shape:
                return ctx.violation(f"intstore.select.{mode}.dtype_or_shape", f"{got.dtype} {tuple(got.shape)}", rdesc)
            outs.append(_np(got))
            if name == "linear":
                # a kernel whose value between two stored integers is not an integer: the read is the kernel's real-valued result
                for e in elems:
                    if c["ongrid"]:
                        exp = float(model.read(off + c["k"])[e])
                    else:
                        older, newer = float(model.read(off + c["kc"])[e]), float(model.read(off + c["kf"])[e])
                        exp = float(inff.interp_linear(torch.tensor(older, dtype=torch.float64), torch.tensor(newer, dtype=torch.float64),
                                                       torch.tensor(float(c["elapsed"]), dtype=torch.float64), dt))
                    ctx.count("real_valued_reads_of_nonfloat_records")
                    # (the scalar-time form does its arithmetic in single precision for a non-float record: values up to 200)
                    if abs(float(outs[-1][e]) - exp) > 1e-3:
                        return ctx.violation(f"intstore.select.{mode}.linear.value", f"got {outs[-1][e]} expected {exp}", rdesc, {"class": c})
                continue
            if name == "spy" and not c["ongrid"]:
                if len(spy.calls) != 1:
                    return ctx.violation(f"intstore.select.{mode}.spy_call_count", f"{len(spy.calls)} calls", rdesc)
                prev, nxt, sat, st = spy.calls[0]
                if not sat.dtype.is_floating_point:
                    return ctx.violation(f"intstore.select.{mode}.elapsed_not_real", f"elapsed time handed over as {sat.dtype}", rdesc)
                if not np.allclose(_np(sat), c["elapsed"], rtol=1e-5, atol=4e-6 * dt):
                    return ctx.violation(f"intstore.select.{mode}.elapsed", f"elapsed {_np(sat).ravel()[:3]} != {c['elapsed']}", rdesc)
                ctx.count("nonfloat_elapsed_checked")
            # value: on-grid -> the stored sample; previous / next / spy -> older / newer / older; nearest by elapsed time
            for e in elems:
                if c["ongrid"]:
                    exp = model.read(off + c["k"])[e]
                else:
                    older, newer = model.read(off + c["kc"])[e], model.read(off + c["kf"])[e]
                    if name in ("spy", "previous"):
                        exp = older
                    elif name == "next":
                        exp = newer
                    else:
                        frac = c["elapsed"] / dt
                        if abs(frac - 0.5) < 1e-6:
                            ctx.guard_skips += 1
                            continue
                        exp = newer if frac > 0.5 else older
                ctx.guard_compared += 1
                if outs[-1][e] != exp:
                    return ctx.violation(f"intstore.select.{mode}.{name}.value", f"got {outs[-1][e]} expected {exp}", rdesc, {"class": c})
        if name != "nearest" or c["ongrid"] or abs(c["elapsed"] / dt - 0.5) > 1e-6:
            if not (np.allclose(outs[0], outs[1], rtol=1e-5, atol=1e-3) if name == "linear" else np.array_equal(outs[0], outs[1])):
                return ctx.violation(f"intstore.select.scalar_ne_tensor.{name}", "scalar-time and tensor-time select disagree", rdesc)


def _nonfinite(ctx, desc):
    n, shape, dt = desc["N"], tuple(desc["shape"]), desc["dt"]
    g = np.random.default_rng(desc["seed"])
    owner = inferno.Module()
    RecordTensor.create(owner, "rec", dt, (n - 0.5) * dt, torch.zeros(shape, dtype=torch.float64), inclusive=False)
    rt = owner.rec
    vals = {"nan": [np.nan], "inf": [np.inf], "-inf": [-np.inf], "mixed": [np.nan, np.inf, -np.inf, 3.5]}[desc["fill"]]
    hist = []
    for i in range(n):
        x = np.asarray(g.choice(vals, size=shape), dtype=np.float64).reshape(shape)
        rt.push(torch.as_tensor(np.array(x, dtype=np.float64)))
    if desc["ptr"]:
        rt.incr(desc["ptr"])
    hist = [_np(rt.read(k)).copy() for k in range(n)]      # k steps back, as the record itself reports (read() is C01's subject)
    ex, _, kw = PAIRS[desc["pair"]]
    fn = getattr(inff, "extrap_" + ex)
    numel = int(np.prod(shape)) if shape else 1
    for rep in range(desc["reps"]):
        rdesc = {**desc, "reps": rep + 1}
        ks = g.integers(0, n, size=shape if desc["mode"] == "tensor" else ())
        obs = (100.0 * (rep + 1) + np.arange(numel, dtype=np.float64)).reshape(shape)
        ctx.case(f"nonfinite/{ex}/{desc['mode']}/{desc['fill']}/N{n}/{'ip' if desc['inplace'] else 'oop'}")
        ctx.count("ongrid_inserts_over_nonfinite_slots")
        try:
            if desc["mode"] == "tensor":
                rt.insert(torch.as_tensor(np.array(obs, dtype=np.float64)), torch.as_tensor(np.array(np.asarray(ks, dtype=np.float64) * dt)),
                          fn, tolerance=1e-9, inplace=desc["inplace"], extrap_kwargs=kw)
            else:
                rt.insert(torch.as_tensor(np.array(obs, dtype=np.float64)), float(ks) * dt, fn, tolerance=1e-9, inplace=desc["inplace"],
                          extrap_kwargs=kw)
        except Exception as e:  # noqa: BLE001
            return ctx.violation(ctx.exc_signature(e, f"nonfinite.insert.{desc['mode']}"), f"{type(e).__name__}: {str(e)[:160]}", rdesc)
        hist = [h.copy() for h in hist]
        if desc["mode"] == "tensor":
            for e in (_elems(shape)):
                hist[int(np.asarray(ks)[e])][e] = obs[e]
        else:
            hist[int(ks)] = obs.copy()
        for k in range(n):
            got = _np(rt.read(k))
            if got.shape != hist[k].shape or not np.array_equal(got, hist[k], equal_nan=True):
                slot = "target_slot" if (np.asarray(ks) == k).any() else "other_slot"
                return ctx.violation(f"nonfinite.insert.{desc['mode']}.ongrid.{slot}",
                                     f"{ex}: after an on-grid insert the slot {k} steps back holds {got.tolist()}, expected {hist[k].tolist()}", rdesc)


def run_case(ctx, desc):
    if desc.get("part") == "intstore":
        return _intstore(ctx, desc)
    if desc.get("part") == "nonfinite":
        return _nonfinite(ctx, desc)
    owner, rt, model, dtp = _setup(desc)
    n, shape, dt = desc["N"], tuple(desc["shape"]), desc["dt"]
    tdt = torch.float64 if desc["timedtype"] == "float64" else torch.float32
    elems = _elems(shape)
    if len(ctx.samples) < 2:
        ctx.sample({**desc, "ops": desc["ops"][:3]})
    obs_counter = [500]
    for step, op in enumerate(desc["ops"]):
        rdesc = {**desc, "ops": desc["ops"][: step + 1]}
        tol, off = op["tol"], op["off"]
        kind = op["op"]
        try:
            if kind == "select":
                mech = _do_select(ctx, rt, model, op, desc, elems, tdt, dtp)
            elif kind == "insert":
                mech = _do_insert(ctx, rt, model, op, desc, elems, tdt, dtp, obs_counter)
            else:
                mech = _do_oor(ctx, rt, model, op, desc, elems, tdt, dtp)
        except Exception as e:  # noqa: BLE001
            ctx.violation(ctx.exc_signature(e, f"{kind}.{op['mode']}"),
                          f"in-domain {kind} raised {type(e).__name__}: {str(e)[:160]}", rdesc, {"op": op})
            return
        if mech:
            ctx.violation(mech[0], mech[1], rdesc, {"op": op, **(mech[2] if len(mech) > 2 else {})})
            return
        # storage must still agree with the model everywhere (insert touches no other slot)
        for k in range(n):
            if not np.allclose(_np(rt.read(k)), model.read(k), rtol=1e-6 if dtp == torch.float32 else 1e-12, atol=0):
                ctx.violation(f"{kind}.{op['mode']}.other_slot_or_wrong_slot",
                              f"storage differs from model at {k} steps before pointer after {kind}", rdesc,
                              {"op": op, "k": k, "impl": _np(rt.read(k)).tolist(), "model": model.read(k).tolist()})
                return


def _abst(op, desc, cls):
    grid = "on" if all(c["ongrid"] for c in cls) else "off" if not any(c["ongrid"] for c in cls) else "mixed"
    edge = "lo" if any((c.get("k", c.get("kf")) == 0) for c in cls) else ""
    edge += "hi" if any((c.get("k", c.get("kc")) == desc["N"] - 1) for c in cls) else ""
    fn = op.get("interp") or (op.get("extrap") if op.get("extrap") == "spy" else f"pair{op.get('pair')}")
    return (f"{op['op']}/{op['mode']}/N{desc['N']}/dt{desc['dt']}/tol{op['tol']}/{grid}/{edge}/off"
            f"{min(op['off'], 2)}/{fn}/{desc['dtype']}/{'ip' if op.get('inplace') else ''}")


def _do_select(ctx, rt, model, op, desc, elems, tdt, dtp):
    n, shape, dt, tol, off = desc["N"], tuple(desc["shape"]), desc["dt"], op["tol"], op["off"]
    mode = op["mode"]
    D = op.get("D", 1)
    cls = [_classify(k, tok, dt, tol, n) for k, tok in zip(op["k"], op["tok"])]
    ctx.case(_abst(op, desc, cls))
    ctx.count("select_calls")
    spy = _Spy()
    name = op["interp"]
    if name == "spy":
        fn, kw = spy.interp, {}
    else:
        fn, kw = getattr(inff, "interp_" + name), _kw_for(name)
    exact = dtp == torch.float64

    def expected(c, e, spyval=None):
        if c["ongrid"]:
            return model.read(off + c["k"])[e]
        older, newer = model.read(off + c["kc"])[e], model.read(off + c["kf"])[e]
        if name == "spy":
            return older * 4099.0 + newer * 3.0 + 0.5
        if name == "nearest":
            frac = c["elapsed"] / dt
            if abs(frac - 0.5) < 1e-7 and not (frac == 0.5 and dt in (1.0, 0.5)):
                return None  # guard band around the tie
        return _interp_ref(name, older, newer, c["elapsed"], dt, kw)

    results = []
    if mode in ("scalar", "both"):
        c = cls[0]
        got = rt.select(c["t"], fn, tolerance=tol, offset=off, interp_kwargs=kw)
        if tuple(got.shape) != shape:
            return ("select.scalar.shape", f"shape {tuple(got.shape)} != {shape}")
        results.append(("scalar", got, [[c] * 1 for _ in elems], 1, False))
        if name == "spy" and not c["ongrid"]:
            m = _check_spy_interp(ctx, spy, model, off, [[c] for _ in elems], elems, dt, scalar=True)
            if m:
                return m
        if name == "spy" and c["ongrid"] and spy.calls:
            pass  # documentation allows calling interp; result is bypassed
    if mode in ("tensor", "tensorD", "both"):
        spy.calls.clear()
        if mode == "both":
            per = [[cls[0]] for _ in elems]
            Dn = 1
        else:
            Dn = D
            per = [cls[i * Dn:(i + 1) * Dn] for i in range(len(elems))]
        tarr = np.array([[c["t"] for c in row] for row in per], dtype=np.float64).reshape(shape + (Dn,))
        tt = torch.from_numpy(tarr).to(tdt)
        squeeze = mode != "tensorD"
        if squeeze:
            tt = tt.squeeze(-1)
        got = rt.select(tt, fn, tolerance=tol, offset=off, interp_kwargs=kw)
        if tuple(got.shape) != tuple(tt.shape):
            return (f"select.{mode}.shape", f"shape {tuple(got.shape)} != {tuple(tt.shape)}")
        results.append((mode, got if not squeeze else got.unsqueeze(-1), per, Dn, True))
        if name == "spy" and any(not c["ongrid"] for row in per for c in row):
            m = _check_spy_interp(ctx, spy, model, off, per, elems, dt, scalar=False)
            if m:
                return m
    # values
    for label, got, per, Dn, is_tensor in results:
        g = _np(got)
        for ei, e in enumerate(elems):
            for d in range(Dn):
                c = per[ei][d]
                exp = expected(c, e)
                if exp is None:
                    ctx.guard_skips += 1
                    continue
                ctx.guard_compared += 1
                val = g[e + (d,)] if is_tensor else g[e]
                if (c["ongrid"] or name in ("spy", "previous", "next", "nearest")) and exact:
                    ok = val == exp
                elif exact:
                    ok = np.isclose(val, exp, rtol=1e-9, atol=1e-9)
                else:  # float32 storage: error scales with the larger bracketing magnitude
                    mag = abs(exp)
                    if not c["ongrid"]:
                        mag = max(mag, abs(model.read(off + c["kc"])[e]), abs(model.read(off + c["kf"])[e]))
                    ok = abs(val - exp) <= 4e-6 * mag * (4099 if name == "spy" else 1) + 1e-3
                if not ok:
                    sub = "ongrid" if c["ongrid"] else "offgrid"
                    return (f"select.{'tensor' if is_tensor else 'scalar'}.{sub}.value.{name}",
                            f"select at t={c['t']} (k={c.get('k')}, on grid={c['ongrid']}) returned {val}, expected {exp}",
                            {"class": c, "elem": list(e)})
    if mode == "both":
        a, b = _np(results[0][1]), _np(results[1][1]).reshape(shape)
        if exact:
            same = np.array_equal(a, b) if name in ("spy", "previous", "next", "nearest") else np.allclose(a, b, rtol=1e-12, atol=1e-12)
        else:  # float32 storage: the scalar path rounds the elapsed time to float32
            mag = max(float(np.abs(model.as_array()).max()), 1.0) * (4099 if name == "spy" else 1)
            same = bool(np.all(np.abs(a - b) <= 4e-6 * mag + 1e-3))
        if not same:
            return ("select.scalar_vs_tensor.disagree", "scalar-time and tensor-time select disagree",
                    {"scalar": a.tolist(), "tensor": b.tolist()})
        ctx.count("scalar_tensor_agreements")
    return None


def _check_spy_interp(ctx, spy, model, off, per, elems, dt, scalar):
    calls = [c for c in spy.calls if c[0] == "interp"]
    if len(calls) != 1:
        return ("select.spy.call_count", f"interpolation called {len(calls)} times for an off-grid time")
    _, prev, nxt, sat, st, _ = calls[0]
    if st != dt:
        return ("select.spy.step_time", f"interpolation got step_time={st}, record dt={dt}")
    sat32 = sat.dtype == torch.float32
    prev, nxt, sat = _np(prev), _np(nxt), _np(sat)
    for ei, e in enumerate(elems):
        for d, c in enumerate(per[ei]):
            if c["ongrid"]:
                continue  # arguments at on-grid elements are don't-care (result is bypassed)
            idx = e if scalar else (d,) + e
            older, newer = model.read(off + c["kc"])[e], model.read(off + c["kf"])[e]
            if prev[idx] != older:
                return ("select.spy.older_sample", f"older bracketing sample {prev[idx]} != {older}", {"class": c})
            if nxt[idx] != newer:
                return ("select.spy.newer_sample", f"newer bracketing sample {nxt[idx]} != {newer}", {"class": c})
            if not np.isclose(sat[idx], c["elapsed"], rtol=1e-5, atol=4e-6 * dt if sat32 else 1e-12):
                return ("select.spy.elapsed", f"elapsed {sat[idx]} != {c['elapsed']}", {"class": c})
            ctx.count("spy_interp_args_checked")
    return None


def _halve(x):
    return x / 2


def _do_insert(ctx, rt, model, op, desc, elems, tdt, dtp, ctr):
    n, shape, dt, tol, off = desc["N"], tuple(desc["shape"]), desc["dt"], op["tol"], op["off"]
    mode = op["mode"]
    numel = len(elems)
    cls = [_classify(k, tok, dt, tol, n) for k, tok in zip(op["k"], op["tok"])]
    ctx.case(_abst(op, desc, cls))
    ctx.count("insert_calls")
    ctr[0] += 1
    x = (ctr[0] * 32 + np.arange(numel, dtype=np.float64)).reshape(shape)
    xt = torch.from_numpy(x).to(dtp)
    if op.get("obs_as"):
        odt = {"int64": torch.int64, "int32": torch.int32,
               "other_float": torch.float32 if dtp == torch.float64 else torch.float64}[op["obs_as"]]
        xt = torch.from_numpy(x).to(odt)          # the values are whole numbers: exact in every one of these types
        ctx.count("inserts_of_observations_in_another_dtype")
    spy = _Spy()
    pair = None
    if op["extrap"] == "spy":
        fn, kw = spy.extrap, {}
    else:
        pair = PAIRS[op["pair"]]
        fn, kw = getattr(inff, "extrap_" + pair[0]), pair[2]
        if pair[0].startswith("linear") and op.get("adjust"):
            # documented optional adjustment of the bracket the linear extrapolation keeps: the insert -> select round trip
            # with the matching pair must still return the inserted sample
            kw = {**kw, "adjust": _halve}
            ctx.count("adjusted_extrapolations")
    per = [cls[0]] * numel if mode == "scalar" else cls
    before = model.clone()
    if mode == "scalar":
        rt.insert(xt, cls[0]["t"], fn, tolerance=tol, offset=off, inplace=op["inplace"], extrap_kwargs=kw)
    else:
        tarr = np.array([c["t"] for c in cls], dtype=np.float64).reshape(shape)
        rt.insert(xt, torch.from_numpy(tarr).to(tdt), fn, tolerance=tol, offset=off, inplace=op["inplace"],
                  extrap_kwargs=kw)
    exact = dtp == torch.float64
    if rt.value.dtype != dtp:
        return ("insert.storage_dtype_changed", f"storage was {dtp}, is {rt.value.dtype} after inserting a {xt.dtype} observation")
    # spy argument check
    if op["extrap"] == "spy" and any(not c["ongrid"] for c in per):
        calls = [c for c in spy.calls if c[0] == "extrap"]
        if len(calls) != 1:
            return ("insert.spy.call_count", f"extrapolation called {len(calls)} times")
        _, smp, sat, prev, nxt, st, _, _ = calls[0]
        if st != dt:
            return ("insert.spy.step_time", f"extrapolation got step_time={st}")
        smp, sat, prev, nxt = (_np(torch.broadcast_to(a, nxt.shape)) for a in (smp, sat, prev, nxt))
        for ei, e in enumerate(elems):
            c = per[ei]
            if c["ongrid"]:
                continue
            idx = e if mode == "scalar" else (0,) + e
            if smp[idx] != x[e]:
                return ("insert.spy.sample", "extrapolation did not receive the inserted observation")
            if prev[idx] != before.read(off + c["kc"])[e]:
                return ("insert.spy.older_sample", f"older bracketing sample {prev[idx]} wrong", {"class": c})
            if nxt[idx] != before.read(off + c["kf"])[e]:
                return ("insert.spy.newer_sample", f"newer bracketing sample {nxt[idx]} wrong", {"class": c})
            if not np.isclose(sat[idx], c["elapsed"], rtol=1e-5, atol=1e-12):
                return ("insert.spy.elapsed", f"elapsed {sat[idx]} != {c['elapsed']}", {"class": c})
            ctx.count("spy_extrap_args_checked")
    # expected storage: update model per element
    model.hist = [h.copy() for h in model.hist]
    for ei, e in enumerate(elems):
        c = per[ei]
        if c["ongrid"]:
            model.hist[(off + c["k"]) % n][e] = x[e]
            continue
        older = before.read(off + c["kc"])[e]
        newer = before.read(off + c["kf"])[e]
        if op["extrap"] == "spy":
            a, b = x[e] * 2 + 1_000_000, x[e] * 2 + 2_000_000
        else:
            a, b = _extrap_ref(pair[0], x[e], c["elapsed"], older, newer, dt, kw)
        model.hist[(off + c["kc"]) % n][e] = a
        model.hist[(off + c["kf"]) % n][e] = b
    # compare the written slots here (run_case compares every slot afterwards too)
    for k in range(n):
        got = _np(rt.read(k))
        exp = model.read(k)
        ok = np.array_equal(got, exp) if exact and op["extrap"] == "spy" else np.allclose(
            got, exp, rtol=1e-9 if exact else 2e-6, atol=1e-9 if exact else 1e-2)
        if not ok:
            touched = set()
            for ei, e in enumerate(elems):
                c = per[ei]
                touched |= {(off + c["k"]) % n} if c["ongrid"] else {(off + c["kc"]) % n, (off + c["kf"]) % n}
            which = "target_slot" if k % n in touched else "untouched_slot_modified"
            grid = "ongrid" if all(c["ongrid"] for c in per) else "offgrid"
            # resync handled by caller returning
            return (f"insert.{mode}.{grid}.{which}", f"slot {k} steps back after insert: got {got.tolist()} expected {exp.tolist()}")
    # in float32 the model must carry what was actually stored (rounded)
    # carry what was actually stored (rounded as the implementation rounded it) so later exact
    # comparisons stay exact; list index k == steps before the pointer
    if not exact or op["extrap"] != "spy":
        model.hist = [_np(rt.read(k)).copy() for k in range(n)]
    # round trip with the matching interpolation
    if pair is not None and exact:
        iname = pair[1]
        ifn = getattr(inff, "interp_" + iname)
        c0 = per[0]
        if mode == "scalar":
            back = rt.select(c0["t"], ifn, tolerance=tol, offset=off, interp_kwargs=kw)
        else:
            tarr = np.array([c["t"] for c in cls], dtype=np.float64).reshape(shape)
            back = rt.select(torch.from_numpy(tarr), ifn, tolerance=tol, offset=off, interp_kwargs=kw)
        b = _np(back)
        for ei, e in enumerate(elems):
            c = per[ei]
            if not c["ongrid"] and iname == "nearest" and abs(c["elapsed"] / dt - 0.5) < 1e-7:
                ctx.guard_skips += 1
                continue
            # linear extrapolation divides by the elapsed time: conditioning ~ dt / min(elapsed, dt - elapsed)
            cond = 1.0 if c["ongrid"] else dt / max(min(c["elapsed"], dt - c["elapsed"]), 1e-300)
            if cond > 1e4:
                ctx.guard_skips += 1
                continue
            ctx.guard_compared += 1
            if not np.isclose(b[e], x[e], rtol=1e-9 * max(cond, 1.0), atol=1e-9):
                return (f"roundtrip.{pair[0]}->{iname}.{'ongrid' if c['ongrid'] else 'offgrid'}",
                        f"insert then select at t={c['t']} returned {b[e]}, inserted {x[e]}", {"class": c})
        ctx.count("roundtrips")
    return None


def _extrap_ref(name, s, el, older, newer, dt, kw):
    if name == "previous":
        return s, newer
    if name == "next":
        return older, s
    if name == "neighbors":
        return s, s
    if name == "nearest":
        return (older, s) if el > dt / 2 else (s, newer)
    # documented: X(0) = f(D(0)) (forward) / X(dt) = f(D(dt)) (backward), f = the optional adjustment, identity by default
    f = kw.get("adjust") or (lambda v: v)
    if name == "linear_forward":
        older = f(older)
        return older, older + (s - older) / el * dt
    if name == "linear_backward":
        newer = f(newer)
        sl = (newer - s) / (dt - el)
        return newer - sl * dt, newer
    if name == "expdecay":
        tc = kw["time_constant"]
        return s * math.exp(el / tc), s * math.exp((el - dt) / tc)
    if name == "expratedecay":
        rc = kw["rate_constant"]
        return s * math.exp(el * rc), s * math.exp((el - dt) * rc)
    raise AssertionError(name)


def _do_oor(ctx, rt, model, op, desc, elems, tdt, dtp):
    n, shape, dt, tol, off = desc["N"], tuple(desc["shape"]), desc["dt"], op["tol"], op["off"]
    mode = op["mode"]
    cls = [_classify(k, tok, dt, tol, n) for k, tok in zip(op["k"], op["tok"])]
    if all(c["inrange"] for c in cls):
        return None
    ctx.case(f"{op['op']}/{mode}/N{n}/dt{dt}/tol{tol}/" + ",".join(sorted({t for c, t in zip(cls, op['tok']) if not c['inrange']})))
    ctx.count("oor_calls")
    x = torch.zeros(shape, dtype=dtp)
    if mode == "scalar":
        bad = next(c for c in cls if not c["inrange"])
        targ = bad["t"]
    else:
        targ = torch.from_numpy(np.array([c["t"] for c in cls], dtype=np.float64).reshape(shape)).to(tdt)
    before = [_np(rt.read(k)).copy() for k in range(n)]

    def call():
        if op["op"] == "select_oor":
            rt.select(targ, None, tolerance=tol, offset=off)
        else:
            rt.insert(x, targ, None, tolerance=tol, offset=off, inplace=False)

    side = "below" if any((not c["inrange"]) and c["t"] < 0 for c in cls) else "above"
    ok = ctx.expect_raises((ValueError,), f"{op['op']}.{mode}", call, mechanism=f"{op['op']}.{mode}.missing_range_error.{side}")
    if not ok:
        model.hist = [_np(rt.read(k)).copy() for k in range(n)]
        return None
    for k in range(n):
        if not np.array_equal(before[k], _np(rt.read(k))):
            return (f"{op['op']}.{mode}.rejected_call_modified_storage", "a rejected call changed storage")
    return None
