"""C01 - RecordTensor is a faithful ring buffer under every operation order.

M-model (rv.models.ring.Ring: a plain list of observations, unique-id values) + M-inv
(icontract class invariant on RecordTensor: pointer range, pointer==0 while uninitialised).
"""

from __future__ import annotations

import itertools

import numpy as np
import torch
import torch.nn as nn

import inferno
from inferno import RecordTensor

from rv.models.ring import Ring

DT = {"float32": torch.float32, "float64": torch.float64, "int64": torch.int64, "bool": torch.bool,
      "int32": torch.int32}

_INV = {"installed": False, "evals": 0, "record_only": False, "recorded": []}


class InvariantBroken(Exception):
    pass


def pointer_in_range(self):
    _INV["evals"] += 1
    try:
        p, n = self.pointer, self.recordsz
    except Exception:  # owner gone / half-constructed
        return True
    # a valid index of the ring: align() takes python-style indices and keeps a negative one as given (everything else reads
    # the pointer modulo the record size)
    ok = (-n <= p < n) and not (self.ignored and p != 0)
    if not ok and _INV["record_only"]:
        if len(_INV["recorded"]) < 20:
            _INV["recorded"].append(f"pointer={p} recordsz={n} ignored={self.ignored}")
        return True
    return ok


def install_invariant():
    if _INV["installed"]:
        return
    import icontract

    icontract.invariant(pointer_in_range, error=lambda self: InvariantBroken(
        f"pointer={self.pointer} recordsz={self.recordsz} ignored={self.ignored}"))(RecordTensor)
    _INV["installed"] = True


# ------------------------------------------------------------------------------------------
# generators
# ------------------------------------------------------------------------------------------

def _alphabet(n, shape, full):
    """every single operation for record size n (offsets 0..2n, lengths 1..n)."""
    ops = []
    offs = range(0, 2 * n + 1)
    for o in offs:
        ops.append({"op": "read", "off": o})
        for ip in (False, True):
            ops.append({"op": "write", "off": o, "inplace": ip, "od": "same"})
    ops.append({"op": "write", "off": 1, "inplace": True, "od": "foreign"})
    ops.append({"op": "write", "off": n, "inplace": False, "od": "foreign"})
    offkinds = ("int", "tu", "td")
    for L in range(1, n + 1):
        for o in offs:
            for fwd in (False, True):
                for ok in offkinds:
                    ops.append({"op": "readrange", "L": L, "off": o, "fwd": fwd, "offkind": ok})
                    for ip in (False, True):
                        ops.append({"op": "writerange", "L": L, "off": o, "fwd": fwd, "offkind": ok,
                                    "inplace": ip, "od": "same"})
        ops.append({"op": "writerange", "L": L, "off": 1, "fwd": False, "offkind": "int", "inplace": True,
                    "od": "foreign"})
        ops.append({"op": "writerange", "L": L, "off": 2, "fwd": True, "offkind": "td", "inplace": True,
                    "od": "foreign"})
        ops.append({"op": "writerange", "L": L, "off": 0, "fwd": False, "offkind": "tu", "inplace": False,
                    "od": "foreign"})
    for pos in range(0, 2 * n + 1):
        ops.append({"op": "incr", "pos": pos})
        ops.append({"op": "decr", "pos": pos})
    for i in range(n):
        ops.append({"op": "align", "index": i})
    for fill in (0, 7, None):
        ops.append({"op": "reset", "fill": fill})
    for ip in (False, True):
        ops.append({"op": "push", "inplace": ip, "od": "same"})
        ops.append({"op": "push", "inplace": ip, "od": "foreign"})
    ops += [{"op": "pop"}, {"op": "peek"}, {"op": "latest_get"}, {"op": "latest_set"}, {"op": "latest_del"}]
    return ops


def _rand_op(rng, n):
    r = rng.random()
    off = rng.choice([0, 1, n - 1, n, n + 1, 2 * n, rng.randint(0, 2 * n)])
    off = max(0, off)
    if r < 0.16:
        return {"op": "push", "inplace": rng.random() < 0.5, "od": rng.choice(["same", "same", "foreign"])}
    if r < 0.24:
        return {"op": "read", "off": off}
    if r < 0.36:
        return {"op": "write", "off": off, "inplace": rng.random() < 0.5,
                "od": rng.choice(["same", "same", "foreign"])}
    if r < 0.52:
        L = rng.choice([1, n, rng.randint(1, n)])
        return {"op": "readrange", "L": L, "off": off, "fwd": rng.random() < 0.5,
                "offkind": rng.choice(["int", "tu", "td"]), "offdtype": rng.choice(["int64", "int64", "int32", "int16", "uint8"])}
    if r < 0.72:
        L = rng.choice([1, n, rng.randint(1, n)])
        ok = rng.choice(["int", "tu", "td"])
        ip = rng.random() < 0.5
        od = rng.choice(["same", "same", "foreign"])
        if od == "foreign" and ok == "int" and not ip:
            od = "same"  # documented dtype promotion of the non-in-place scalar-offset splice: not asserted
        return {"op": "writerange", "L": L, "off": off, "fwd": rng.random() < 0.5, "offkind": ok,
                "inplace": ip, "od": od, "offdtype": rng.choice(["int64", "int64", "int32", "int16", "uint8"])}
    if r < 0.78:
        return {"op": "incr", "pos": rng.choice([0, 1, 1, 2, n, rng.randint(0, 2 * n)])}
    if r < 0.84:
        return {"op": "decr", "pos": rng.choice([0, 1, 1, 2, n, rng.randint(0, 2 * n)])}
    if r < 0.88:
        return {"op": "align", "index": rng.randrange(-n, n)}
    if r < 0.90:
        return {"op": "reset", "fill": rng.choice([0, 3, None, None])}
    if r < 0.93:
        return {"op": "pop"}
    if r < 0.95:
        return {"op": "peek"}
    if r < 0.97:
        return {"op": "latest_set"}
    if r < 0.985:
        return {"op": "latest_del"}
    return {"op": "latest_get"}


def generate(ctx):
    rng = ctx.rng
    thorough = ctx.tier == "thorough"
    # (a) inductive single-operation sweep, exhaustive for N <= 4 (quick: N <= 3 full, N = 4 sampled)
    heads = []
    for n in (1, 2, 3, 4):
        for shape in ((), (2,)):
            for storage in ("buffer", "param", "none"):
                for ptr in range(n):
                    heads.append((n, shape, storage, ptr))
    for i, (n, shape, storage, ptr) in enumerate(heads):
        if i % ctx.nshards != ctx.shard:
            continue
        dtype = ("float32", "int64", "float64")[(i // ctx.nshards) % 3]
        ops = _alphabet(n, shape, True)
        yield {"kind": "sweep", "N": n, "shape": list(shape), "storage": storage, "dtype": dtype,
               "ptr": ptr, "fresh_each": True, "ops": ops}
    # (a') compositions of two operations (thorough: all pairs for N<=2, sampled for N=3; quick: sampled)
    npairs = 4000 if thorough else 250
    for _ in range(npairs):
        n = rng.choice([1, 2, 2, 3, 3])
        alpha = _alphabet(n, (2,), True)
        ops = [rng.choice(alpha) for _ in range(3 if thorough and rng.random() < 0.4 else 2)]
        yield {"kind": "compose", "N": n, "shape": [2], "storage": rng.choice(["buffer", "param", "none"]),
               "dtype": rng.choice(["float32", "int64"]), "ptr": rng.randrange(n), "fresh_each": False,
               "ops": ops}
    # (b) random histories
    nhist = 600 if thorough else 26
    for _ in range(nhist):
        n = rng.choice([1, 2, 3, 5, 8, 13, rng.randint(1, 30)])
        shape = rng.choice([(), (1,), (3,), (2, 3), (2, 1, 2), (4, 2)])
        dtype = rng.choice(["float32", "float32", "float64", "int64", "bool"])
        T = rng.randint(50, 300)
        ops = [_rand_op(rng, n) for _ in range(T)]
        yield {"kind": "history", "N": n, "shape": list(shape), "storage": rng.choice(["buffer", "param", "none"]),
               "dtype": dtype, "ptr": rng.randrange(n), "fresh_each": False, "ops": ops,
               "vseed": rng.randrange(1 << 30), "restrided": rng.random() < 0.5}


# ------------------------------------------------------------------------------------------
# case execution
# ------------------------------------------------------------------------------------------

class _Ids:
    def __init__(self, shape, dtype, seed=0):
        self.shape = tuple(shape)
        self.k = 1
        self.dtype = dtype
        self.numel = int(np.prod(self.shape)) if self.shape else 1
        self.gen = np.random.default_rng(seed)

    def obs(self):
        if self.dtype == "bool":
            return self.gen.integers(0, 2, size=self.shape).astype(np.float64)
        base = self.k * 32
        self.k += 1
        return (base + np.arange(self.numel, dtype=np.float64).reshape(self.shape))

    def rng_obs(self, L):
        return np.stack([self.obs() for _ in range(L)], -1)


def _foreign(dtype):
    return {"float32": "int64", "float64": "float32", "int64": "float32", "bool": "bool"}[dtype]


def _build(desc):
    n, shape = desc["N"], tuple(desc["shape"])
    dt = DT[desc["dtype"]]
    owner = inferno.Module()
    if desc["storage"] == "buffer":
        val = torch.zeros(shape, dtype=dt)
    elif desc["storage"] == "param":
        val = nn.Parameter(torch.zeros(shape, dtype=dt), requires_grad=False)
    else:
        val = None
    # duration = n steps of dt=1 -> recordsz n
    RecordTensor.create(owner, "rec", 1.0, float(n), val, inclusive=False)
    return owner, owner.rec


def _to_t(arr, dtype):
    return torch.from_numpy(np.asarray(arr, dtype=np.float64)).to(DT[dtype])


def _np(t):
    return t.detach().to(torch.float64).numpy()


def _offset_tensor(kind, off, shape, n):
    if kind == "tu":
        return np.full(shape, off, dtype=np.int64)
    numel = int(np.prod(shape)) if shape else 1
    # per-element-distinct offsets, all within [0, 2n]
    return ((off + np.arange(numel)) % (2 * n + 1)).reshape(shape).astype(np.int64)


def _abst(op, n, ptr, desc):
    k = op["op"]
    parts = [k, f"N{n}", f"p{ptr}", desc["storage"], desc["dtype"]]
    if "off" in op:
        o = op["off"]
        parts.append("o0" if o == 0 else "o<N" if o < n else "o=N" if o == n else "o>N")
    if "L" in op:
        parts.append("L=N" if op["L"] == n else "L1" if op["L"] == 1 else "Lmid")
        parts.append("fwd" if op["fwd"] else "bwd")
        parts.append(op["offkind"])
    if "inplace" in op:
        parts.append("ip" if op["inplace"] else "oop")
    if op.get("od") == "foreign":
        parts.append("foreign")
    if "pos" in op:
        parts.append("pos0" if op["pos"] == 0 else "pos<N" if op["pos"] < n else "pos>=N")
    return "/".join(parts)


def _check_state(ctx, rt, model, desc, op, step, storage_dtype):
    """full logical state two ways: API read(k) and structural value[(pointer-k) mod N]."""
    n = model.n
    val = rt.value
    bad = None
    if val is None or rt.ignored:
        return "state.uninitialised_after_op"
    if val.shape[0] != n:
        return "state.storage_length"
    if storage_dtype is not None and val.dtype != storage_dtype:
        return "state.storage_dtype_changed"
    # after align(k) with a negative k the pointer attribute holds k itself (a valid index of the ring, counted from the end)
    if rt.pointer % n != model.pointer:
        return "state.pointer"
    p = rt.pointer
    for k in range(n):
        got = _np(rt.read(k))
        if not np.array_equal(got, model.read(k)):
            bad = "state.contents"
            break
        struct = _np(val[(p - k) % n])
        if not np.array_equal(got, struct):
            bad = "state.read_vs_storage"
            break
    ctx.count("state_readbacks")
    return bad


def _apply(ctx, rt, model, ids, op, desc, sdt=None):
    """apply one op to implementation and model; return mechanism string of a mismatch or None."""
    n, shape, dtype = model.n, model.shape, desc["dtype"]
    k = op["op"]
    od = dtype if op.get("od", "same") == "same" else _foreign(dtype)
    rdt = sdt if sdt is not None else DT[dtype]  # dtype reads must come back in
    if k == "read":
        got = rt.read(op["off"])
        if got.dtype != rdt:
            return "read.dtype"
        return None if np.array_equal(_np(got), model.read(op["off"])) else "read.value"
    if k == "peek" or k == "latest_get":
        got = rt.peek() if k == "peek" else rt.latest
        if got is None:
            return f"{k}.none_on_initialised"
        return None if np.array_equal(_np(got), model.peek()) else f"{k}.value"
    if k == "pop":
        got = rt.pop()
        exp = model.pop()
        if got is None:
            return "pop.none_on_initialised"
        return None if np.array_equal(_np(got), exp) else "pop.value"
    if k == "write":
        x = ids.obs()
        rt.write(_to_t(x, od), op["off"], inplace=op["inplace"])
        model.write(x, op["off"])
        return None
    if k == "push" or k == "latest_set":
        x = ids.obs()
        if k == "push":
            rt.push(_to_t(x, od), inplace=op["inplace"])
        else:
            rt.latest = _to_t(x, od)
        model.push(x)
        return None
    if k == "latest_del":
        del rt.latest
        model.decr(1)
        return None
    if k == "incr":
        r = rt.incr(op["pos"])
        model.incr(op["pos"])
        return None if r == model.pointer else "incr.return"
    if k == "decr":
        r = rt.decr(op["pos"])
        model.decr(op["pos"])
        return None if r == model.pointer else "decr.return"
    if k == "align":
        rt.align(op["index"])
        model.align(op["index"])
        return None
    if k == "reset":
        fill = op["fill"]
        if fill is not None and dtype == "bool":
            fill = min(fill, 1)
        rt.reset(fill)
        model.reset(fill)
        return None
    if k in ("readrange", "writerange"):
        L = op["L"]
        if op["offkind"] == "int":
            moff, ioff = op["off"], op["off"]
        else:
            moff = _offset_tensor(op["offkind"], op["off"], shape, n)
            ioff = torch.from_numpy(moff.copy())
            if op.get("offdtype", "int64") != "int64":
                # any integer tensor is an offset tensor: the values (0 .. 2N) fit every one of these types
                ioff = ioff.to({"int32": torch.int32, "int16": torch.int16, "uint8": torch.uint8}[op["offdtype"]])
                ctx.count("range_ops_with_narrow_integer_offset_tensors")
        span = "L=N" if L == n else "L<N"
        tag = f"{'scalar' if op['offkind'] == 'int' else 'tensor'}_offset.{span}.{'fwd' if op['fwd'] else 'bwd'}"
        if k == "readrange":
            got = rt.readrange(L, ioff, forward=op["fwd"])
            exp = model.readrange(L, moff, op["fwd"])
            if tuple(got.shape) != tuple(exp.shape):
                if got.numel() == 0:
                    return f"readrange.{tag}.empty_result"
                return f"readrange.{tag}.shape"
            if got.dtype != rdt:
                return f"readrange.{tag}.dtype"
            return None if np.array_equal(_np(got), exp) else f"readrange.{tag}.value"
        x = ids.rng_obs(L)
        rt.writerange(_to_t(x, od), ioff, forward=op["fwd"], inplace=op["inplace"])
        model.writerange(x, moff, op["fwd"])
        return None
    raise AssertionError(k)


def _opkind(op):
    k = op["op"]
    bits = [k]
    if "offkind" in op:
        bits.append("scalar_offset" if op["offkind"] == "int" else "tensor_offset")
    if "inplace" in op:
        bits.append("inplace" if op["inplace"] else "outofplace")
    if op.get("od") == "foreign":
        bits.append("foreign_dtype")
    return ".".join(bits)


def _setup(ctx, desc, ids):
    """fresh record whose N slots hold unique ids, pointer at desc['ptr'] (built through push/incr,
    with the model following; verified by the first state read-back)."""
    owner, rt = _build(desc)
    n, shape = desc["N"], tuple(desc["shape"])
    model = Ring(n, shape)
    storage_dtype = DT[desc["dtype"]]
    if desc["storage"] == "none":
        # uninitialised: peek/pop give None, pointer 0; the first push creates storage of the obs dtype
        if rt.peek() is not None or rt.pop() is not None or rt.pointer != 0:
            ctx.violation("uninitialised.peek_pop_pointer", "peek/pop/pointer on uninitialised storage", desc)
    for _ in range(n):
        x = ids.obs()
        # the very first mutations of constructor-supplied storage are in place for every other case
        rt.push(_to_t(x, desc["dtype"]), inplace=bool(desc.get("seed", desc["N"] + desc.get("ptr", 0)) % 2))
        model.push(x)
    if desc["storage"] == "none":
        if rt.value.dtype != storage_dtype:
            ctx.count("autocreate_dtype_mismatch")
            ctx.violation(
                "push.autocreate.dtype_not_adopted",
                f"first push of a {desc['dtype']} observation into None storage created {rt.value.dtype} storage",
                {**desc, "ops": []},
                {"storage_dtype": str(rt.value.dtype)},
            )
            # re-synchronise: continue with the dtype the implementation chose when it is lossless
            if rt.value.dtype == torch.int64 and desc["dtype"] != "bool":
                storage_dtype = torch.int64
            else:
                storage_dtype = None
        ctx.count("autocreate_checked")
    if desc["ptr"]:
        rt.incr(desc["ptr"])
        model.incr(desc["ptr"])
    if desc.get("restrided") and len(shape) >= 2 and rt.value is not None:
        # the same contents handed back through the documented value setter in another memory layout (a view whose observation
        # dimensions cannot be merged into one stride): in-place and out-of-place operations see the same record
        v = rt.value
        nc = v.detach().transpose(-1, -2).contiguous().transpose(-1, -2)
        rt.value = torch.nn.Parameter(nc, requires_grad=v.requires_grad) if isinstance(v, torch.nn.Parameter) else nc
        if not rt.value.is_contiguous():
            ctx.count("records_given_non_contiguous_storage")
    return owner, rt, model, storage_dtype


def run_case(ctx, desc):
    install_invariant()
    ids = _Ids(desc["shape"], desc["dtype"], desc.get("vseed", 0))
    fresh_each = desc.get("fresh_each", False)
    owner = rt = model = None
    sdt = None
    if not fresh_each:
        owner, rt, model, sdt = _setup(ctx, desc, ids)
        m = _check_state(ctx, rt, model, desc, None, -1, sdt)
        if m:
            ctx.violation("setup." + m, "state after N pushes + incr differs from model", {**desc, "ops": []})
            return
    if len(ctx.samples) < 2 and desc["kind"] != "sweep":
        ctx.sample({k: (v if k != "ops" else v[:6]) for k, v in desc.items()})
    for step, op in enumerate(desc["ops"]):
        if fresh_each:
            owner, rt, model, sdt = _setup(ctx, desc, ids)
        n = model.n
        ptr_before = model.pointer
        rdesc = {**desc, "ops": [op] if fresh_each else desc["ops"][: step + 1], "kind": desc["kind"]}
        nontrivial = not (op["op"] in ("incr", "decr") and op["pos"] == 0)
        ctx.case(_abst(op, n, ptr_before, desc), nontrivial)
        ctx.count("ops." + op["op"])
        try:
            mech = _apply(ctx, rt, model, ids, op, desc, sdt)
        except InvariantBroken as e:
            ctx.violation(f"invariant.pointer_range:{_opkind(op)}", str(e), rdesc)
            return
        except Exception as e:  # noqa: BLE001 in-domain call raised
            ctx.violation(ctx.exc_signature(e, _opkind(op)),
                          f"in-domain {_opkind(op)} raised {type(e).__name__}: {str(e)[:160]}", rdesc,
                          {"op": op, "N": n, "ptr": ptr_before})
            if fresh_each:
                continue
            return
        if mech is None:
            mech = _check_state(ctx, rt, model, desc, op, step, sdt)
            if mech:
                mech = f"{_opkind(op)}.{mech}"
        if mech:
            ctx.violation(mech, f"{op} on N={n} ptr={ptr_before} diverged from the list model", rdesc,
                          {"op": op, "N": n, "ptr": ptr_before, "model_pointer": model.pointer,
                           "impl_pointer": rt.pointer,
                           "impl": _np(rt.value).tolist() if rt.value is not None else None,
                           "model_hist": model.as_array().tolist()})
            if fresh_each:
                continue
            # re-synchronise the model from the implementation and continue the history
            try:
                _resync(rt, model)
                sdt = rt.value.dtype
            except Exception:  # noqa: BLE001
                return
    ctx.counters["invariant_evaluations"] = _INV["evals"]


def _resync(rt, model):
    n = model.n
    model.pointer = rt.pointer
    model.hist = [_np(rt.read(k)).copy() for k in range(n)]


def finish(ctx):
    ctx.counters["invariant_evaluations"] = _INV["evals"]

