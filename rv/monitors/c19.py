"""C19 - spike encoders respect shape, silence at zero, refractory gap and reproducibility.

M-inv over a generator-seed sweep on the real encoder functions and Module wrappers.
"""

from __future__ import annotations

import numpy as np
import torch

import inferno
from inferno import neural
from inferno.neural import functional as nf

KINDS = ["exp_interval", "bernoulli", "poisson_interval", "inhomogeneous"]


def generate(ctx):
    rng = ctx.rng
    n = 40000 if ctx.tier == "thorough" else 2600
    for i in range(n):
        kind = rng.choice(["exp_interval", "exp_interval", "exp_interval", "bernoulli", "poisson_interval", "inhomogeneous"])
        dt = rng.choice([1.0, 0.5, 0.1, 0.3, 0.2, 2.0, 4.0, round(rng.uniform(0.05, 3.0), 3)])
        rsteps = rng.choice([None, 1, 2, 3, 5, 6, 9])
        refrac = None if rsteps is None else rsteps * dt      # the way a user writes "k steps": k * dt
        rms = dt if refrac is None else refrac
        comp = rng.random() < 0.5
        # documented domain: frequency * refrac < 1000 when compensating; use the upper part of it so that spikes
        # are packed as tightly as the refractory period allows
        fmax = rng.choice([5.0, 50.0, 200.0, 900.0, 0.6 * 1000.0 / rms, 0.9 * 1000.0 / rms, round(rng.uniform(1.0, 0.95 * 1000.0 / rms), 2)])
        if kind == "exp_interval" and fmax * rms >= 1000:
            fmax = 900.0 / rms
        if kind == "exp_interval" and not comp and rng.random() < 0.3:
            # the frequency * refrac < 1000 limit belongs to compensation only: without it any rate is legal and the
            # intervals are the refractory period plus an ever shorter exponential draw
            fmax = rng.choice([1000.0, 1200.0, 2000.0, 5000.0, 20000.0]) / rms
        if kind in ("bernoulli", "inhomogeneous") and rng.random() < 0.3:
            # expected spikes per step above one: the documented behaviour is to clamp the probability at one
            fmax = rng.choice([1100.0, 1500.0, 4000.0]) / dt
        shape = rng.choice([(1,), (4,), (2, 3), (2, 2, 2)])
        yield {"kind": kind, "dt": dt, "steps": rng.choice([1, 2, 7, 40, 120, 300, 300, rng.randint(1, 350)]), "refrac_steps": rsteps,
               "compensate": comp, "frequency": fmax, "shape": list(shape), "online": rng.random() < 0.4,
               "module": rng.random() < 0.5, "seed": rng.randrange(1 << 31),
               "zeros": rng.choice(["some", "some", "all", "none"]), "ones": rng.random() < 0.6,
               "reconfigure": rng.random() < 0.35, "layout": rng.choice(["row_major", "row_major", "transposed"]),
               "in_dtype": rng.choice(["float32", "float32", "float64"]), "consume": rng.choice(["stream", "collect"]), "negzero": rng.random() < 0.3}
    yield from _saturated(rng, 400 if ctx.tier == "thorough" else 12)
    # silence at zero intensity is a statement about every draw of the generator: very many zero-intensity element-steps
    for i in range(320 if ctx.tier == "thorough" else 24):
        kind = KINDS[i % 4]
        dt = rng.choice([1.0, 0.5])
        yield {"kind": kind, "dt": dt, "steps": 500, "refrac_steps": rng.choice([None, 2]), "compensate": False,
               "frequency": rng.choice([50.0, 128.0, 400.0]), "shape": [8192], "online": i % 8 >= 4, "module": rng.random() < 0.5,
               "seed": rng.randrange(1 << 31), "zeros": "all", "ones": False, "storm": True}


def _saturated(rng, n):
    """the refractory encoder at the edge of its documented domain (frequency * refrac just under 1000, compensation on,
    full intensity): the re-drawn intervals are the refractory period plus almost nothing, for very many spikes"""
    for _ in range(n):
        dt = rng.choice([1.0, 0.5])
        rsteps = rng.choice([2, 3, 4, 5])
        yield {"kind": "exp_interval", "dt": dt, "steps": 400, "refrac_steps": rsteps, "compensate": True,
               "frequency": rng.choice([0.9995, 0.999, 0.9999]) * 1000.0 / (rsteps * dt), "shape": [256], "online": rng.random() < 0.7,
               "module": rng.random() < 0.5, "seed": rng.randrange(1 << 31), "zeros": "none", "ones": "all"}


def _inputs(desc):
    g = torch.Generator().manual_seed(desc["seed"] ^ 0x5bd1)
    shape = tuple(desc["shape"])
    x = torch.rand(shape, generator=g)
    flat = x.view(-1)
    if desc["zeros"] == "all":
        flat.zero_()
    elif desc["zeros"] == "some":
        flat[0] = 0.0
        if flat.numel() > 2:
            flat[2] = 0.0
    if desc["ones"] == "all":
        flat.fill_(1.0)
    elif desc["ones"] and flat.numel() > 1 and desc["zeros"] != "all":
        flat[1] = 1.0
    if desc.get("negzero"):
        # the zero intensities carry a negative sign bit (what -x * 0, x * -0.0 or a negated zero image leave behind): still zero
        x = torch.where(x == 0, torch.full_like(x, -0.0), x)
    if desc.get("in_dtype") == "float64":
        x = x.double()
    if desc.get("layout") == "transposed" and x.ndim >= 2:
        # the same intensities stored column-major (what a transposed view or a channels-last image batch looks like)
        x = x.transpose(0, -1).contiguous().transpose(0, -1)
    return x


def _arg(keep, make):
    """the tensor handed to the encoder: made once per case and handed over again on the repetition (a stimulus replayed over
    trials); a snapshot tells afterwards whether the callee wrote into it"""
    if keep is None:
        return make()
    if "arg" not in keep:
        keep["arg"] = make()
        keep["snap"] = keep["arg"].clone()
    return keep["arg"]


def _run(desc, x, gen, keep=None):
    """-> (T, *shape) bool tensor plus meta about how many slices an online run yielded"""
    kind, dt, steps = desc["kind"], desc["dt"], desc["steps"]
    refrac = None if desc["refrac_steps"] is None else desc["refrac_steps"] * dt
    f = desc["frequency"]
    online = desc["online"]
    if kind == "inhomogeneous":
        xs = x.unsqueeze(0).expand(steps, *x.shape).clone()
        out = nf.inhomogeneous_poisson_bernoulli_approx(_arg(keep, lambda: f * xs), dt, generator=gen)
        return out, None
    if desc["module"]:
        if desc.get("reconfigure"):
            # the same configuration reached through the documented property setters of the encoder module
            g0 = torch.Generator().manual_seed(1)
            if kind == "exp_interval":
                enc = neural.HomogeneousPoissonEncoder(3, 1.0, 5.0, refrac=None, compensate=False, generator=g0)
            elif kind == "bernoulli":
                enc = neural.HomogeneousPoissonApproxEncoder(3, 1.0, 5.0, generator=g0)
            else:
                enc = neural.PoissonIntervalEncoder(3, 1.0, 5.0, generator=g0)
            if desc["seed"] % 2:
                enc.dt = dt
                enc.steps = steps
            if kind == "exp_interval":
                enc.refrac = refrac
                enc.frequency = f
            else:
                enc.frequency = f
            if not desc["seed"] % 2:
                # the step time assigned AFTER an explicit refractory period: the period stays what was configured
                enc.dt = dt
                enc.steps = steps
            if kind == "exp_interval":
                enc.compensated = desc["compensate"]     # last: its validity test needs the final frequency and period
            enc.generator = gen
        elif kind == "exp_interval":
            enc = neural.HomogeneousPoissonEncoder(steps, dt, f, refrac=refrac, compensate=desc["compensate"], generator=gen)
        elif kind == "bernoulli":
            enc = neural.HomogeneousPoissonApproxEncoder(steps, dt, f, generator=gen)
        else:
            enc = neural.PoissonIntervalEncoder(steps, dt, f, generator=gen)
        res = enc(_arg(keep, lambda: x.clone(memory_format=torch.preserve_format)), online=online)
    else:
        fx = _arg(keep, lambda: f * x)
        if kind == "exp_interval":
            fn = nf.homogeneous_poisson_exp_interval_online if online else nf.homogeneous_poisson_exp_interval
            res = fn(fx, steps, dt, refrac=refrac, compensate=desc["compensate"], generator=gen)
        elif kind == "bernoulli":
            fn = nf.homogenous_poisson_bernoulli_approx_online if online else nf.homogenous_poisson_bernoulli_approx
            res = fn(fx, steps, dt, generator=gen)
        else:
            fn = nf.poisson_interval_online if online else nf.poisson_interval
            res = fn(fx, steps, dt, generator=gen)
    if online:
        # either consumed as a stream (each slice copied when it arrives) or collected first and used afterwards
        # (torch.stack(list(encoder(x, online=True)))): every yielded slice is its own step's train either way
        slices = [s.clone() for s in res] if desc.get("consume", "stream") == "stream" else list(res)
        return slices, len(slices)
    return res, None


def run_case(ctx, desc):
    kind, dt, steps = desc["kind"], desc["dt"], desc["steps"]
    shape = tuple(desc["shape"])
    x = _inputs(desc)
    nontrivial = kind == "exp_interval" or bool((x == 0).any())
    rs = desc["refrac_steps"]
    ctx.case(f"{kind}/{'online' if desc['online'] else 'offline'}/{'module' if desc['module'] else 'fn'}/"
             f"dt{dt}/refrac{rs}/comp{int(desc['compensate'])}/steps{min(steps, 40)}/zeros-{desc['zeros']}/nd{len(shape)}",
             nontrivial)
    if ctx.counters.get("sampled." + kind, 0) == 0:
        ctx.count("sampled." + kind)
        ctx.sample({**desc, "inputs": x.tolist()})
    opk = f"{kind}.{'online' if desc['online'] else 'offline'}"
    if desc.get("reconfigure") and desc["module"] and kind != "inhomogeneous":
        ctx.count("setter_configured_encoders")
        opk += ".setter_configured"
    outs = []
    if desc["online"] and desc.get("consume") == "collect":
        ctx.count("online_runs_collected_before_use")
    if desc.get("layout") == "transposed" and x.ndim >= 2 and not x.is_contiguous():
        ctx.count("intensity_tensors_not_row_major")
    keep = {}
    for rep in range(2):
        gen = torch.Generator().manual_seed(desc["seed"])
        try:
            res, nsl = _run(desc, x.clone(memory_format=torch.preserve_format), gen, keep)
        except Exception as e:  # noqa: BLE001
            ctx.violation(ctx.exc_signature(e, opk + (".multi_element" if x.numel() > 1 else ".single_element")),
                          f"encoder raised {type(e).__name__}: {str(e)[:140]}", desc)
            return
        if isinstance(res, list):
            if nsl != steps:
                return ctx.violation(f"{opk}.slice_count", f"online encoder yielded {nsl} slices, steps={steps}", desc)
            for s in res:
                if s.dtype != torch.bool or tuple(s.shape) != shape:
                    return ctx.violation(f"{opk}.slice_shape_dtype", f"slice {tuple(s.shape)} {s.dtype}", desc)
            res = torch.stack(res, 0)
        if res.dtype != torch.bool:
            return ctx.violation(f"{opk}.dtype", f"dtype {res.dtype}", desc)
        if tuple(res.shape) != (steps,) + shape:
            return ctx.violation(f"{opk}.shape", f"shape {tuple(res.shape)} expected {(steps,) + shape}", desc)
        outs.append(res)
    ctx.count("shape_dtype_checks")
    ctx.count("input_tensors_checked_after_two_encodings")
    if not torch.equal(keep["arg"], keep["snap"]):
        return ctx.violation(f"{opk}.input_tensor_modified", "the encoder wrote into the intensity tensor it was given", desc)
    if not torch.equal(outs[0], outs[1]):
        return ctx.violation(f"{opk}.not_reproducible", "same generator state gave different spike trains", desc)
    ctx.count("reproducibility_checks")
    res = outs[0]
    if ".setter_configured" in opk:
        # the generator (and everything else) handed over through the setters is the one that is used: the same configuration
        # given to the constructor, with the generator in the same state, draws the same train
        try:
            ref, _ = _run({**desc, "reconfigure": False}, x.clone(memory_format=torch.preserve_format), torch.Generator().manual_seed(desc["seed"]))
        except Exception as e:  # noqa: BLE001
            return ctx.violation(ctx.exc_signature(e, opk + ".constructor_twin"), f"{type(e).__name__}: {str(e)[:140]}", desc)
        if isinstance(ref, list):
            ref = torch.stack(ref, 0)
        ctx.count("setter_vs_constructor_train_comparisons")
        if ref.shape != res.shape or not torch.equal(ref, res):
            return ctx.violation(f"{opk}.train_differs_from_constructor_configured",
                                 "an encoder configured through its setters (generator included) draws a different train than one "
                                 "given the same configuration and generator state at construction", desc)
    zero = x == 0
    if desc.get("storm"):
        ctx.count("zero_intensity_element_steps_in_storms", int(zero.sum()) * steps)
    if bool(zero.any()):
        ctx.count("zero_intensity_elements", int(zero.sum()))
        if desc.get("negzero"):
            ctx.count("negative_zero_intensity_elements", int(zero.sum()))
        if bool(res[:, zero].any()):
            return ctx.violation(f"{opk}.spike_at_zero_intensity", "an element of zero intensity spiked", desc,
                                 {"steps_with_spikes": res[:, zero].any(-1).nonzero().view(-1).tolist()[:10]})
    if kind == "exp_interval":
        gap = 1 if rs is None else rs
        if not desc["compensate"] and desc["frequency"] * (dt if rs is None else rs * dt) >= 1000:
            ctx.count("uncompensated_above_compensation_limit")
        flat = res.reshape(steps, -1)
        for e in range(flat.shape[1]):
            idx = flat[:, e].nonzero().view(-1)
            if idx.numel() >= 2:
                ctx.count("refractory_gaps_checked", idx.numel() - 1)
                mind = int((idx[1:] - idx[:-1]).min())
                if mind < gap:
                    return ctx.violation(f"{opk}.refractory_gap", f"two spikes {mind} steps apart, refractory period {gap} steps",
                                         desc, {"element": e, "spike_steps": idx.tolist()[:20]})
        # the same through the library's own ISI helper (ms)
        iv = inferno.isi(res, dt, time_first=True)
        if iv.numel() and bool((~torch.isnan(iv)).any()):
            m = float(iv[~torch.isnan(iv)].min())
            if m < gap * dt - 1e-3 * dt:   # inferno.isi works in float32: allow its rounding, far below one step
                return ctx.violation(f"{opk}.refractory_gap_isi", f"minimum inter-spike interval {m} ms < {gap * dt} ms", desc)
