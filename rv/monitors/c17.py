"""C17 - layers wire components as documented; clear() restores the initial state.

M-rel: (a) a layer vs. hand-composed twins (components constructed again from the same descriptor
and stepped by hand in the documented order); (b) a cleared layer vs. a freshly built copy carrying
the learned parameters / adaptations, with clear() at EVERY position of a run.
"""

from __future__ import annotations

import torch

import inferno
from inferno import neural

from rv import factory as fac

COMBINES = ["sum", "mean", "prod", "min", "max", "custom"]


def generate(ctx):
    rng = ctx.rng
    th = ctx.tier == "thorough"
    for i in range(900 if th else 36):
        kind = ["serial", "biclique", "recurrent"][i % 3]
        d = {"kind": kind, "dt": rng.choice([1.0, 0.5, 1.3, 0.25]), "B": rng.randint(1, 3), "seed": rng.randrange(1 << 30),
             "T": rng.randint(6, 10), "neuron": rng.choice(fac.NEURONS), "neuron2": rng.choice(fac.NEURONS),
             "syn": rng.choice(fac.SYNAPSES), "delay": rng.choice([None, None, 2]), "bias": rng.random() < 0.4,
             "capture": rng.random() < 0.5, "p": rng.choice([0.3, 0.6, 0.9]), "replay": 5,
             # component names other than the defaults, and keyword arguments routed to the neurons by name
             "names": (i // 3) % 4 in (1, 2), "nkw": (i // 3) % 4 in (1, 3),
             # keyword arguments for the connections, routed by name (which connections get some: by bit)
             "ckw": rng.choice([0, 0, 1, 2, 3, 5, 6, 7]),
             # connections carry updaters with pending (accumulated, partly inspected, partly applied) updates when cleared
             "updaters": rng.random() < 0.5,
             # recurrent layers: additional positional inputs for the lateral / feedback connections (DeltaPlus currents)
             "rargs": rng.random() < 0.6}
        if kind == "serial":
            d["conn"] = rng.choice(fac.CONNECTIONS)
            d["transform"] = rng.choice([None, "double", "offset_kw"])
        elif kind == "biclique":
            d["conns"] = [rng.choice(["dense", "dense", "direct", "lateral"]) for _ in range(rng.randint(1, 3))]
            d["nneurons"] = rng.randint(1, 2)
            d["combine"] = rng.choice(COMBINES)
            d["post"] = rng.random() < 0.5
            d["pre"] = rng.random() < 0.5
            d["pre_inplace"] = rng.random() < 0.5      # the first group's transform modifies its argument in place
            d["subset"] = rng.random() < 0.6
        else:
            d["trainable_feedback"] = rng.random() < 0.5
            # each of the five documented transforms is given or omitted on its own
            d["transforms"] = rng.random() < 0.4
            d["in_transforms"] = rng.random() < 0.4
            if rng.random() < 0.5:
                d["transform_set"] = sorted(rng.sample(["ffo", "fbo", "lato", "lati", "fbi"], rng.randint(1, 4)))
            d["prefire_neurons"] = rng.random() < 0.5          # build the layer around neuron groups that just spiked
            d["partial_clear_at"] = rng.choice([None, 2, 3, 4])  # clear(submodules=False) / clear(clear_feedback=False) mid-run
            d["partial_clear_kind"] = rng.choice(["layer_only", "components_only"])
        d["drop_adaptations"] = rng.random() < 0.5        # odd clear positions use clear(keep_adaptations=False)
        yield d


# ------------------------------------------------------------------------------------------

def _double(x, **kw):
    return x * 2.0


def _double_inplace(x, **kw):
    # a transform that works in place on what it is handed (torch.relu_, nn.ReLU(inplace=True), x.clamp_() are of this kind)
    return x.mul_(2.0)


def _offset_kw(x, offset=0.0, **kw):
    return x + offset


def _custom_combine(tensors, **kw):
    vals = list(tensors.values())
    out = vals[0] * 1.0
    for i, v in enumerate(vals[1:], 2):
        out = out + v / i
    return out


def _ref_combine(name, vals):
    st = torch.stack(vals, 0)
    if name == "sum":
        return st.sum(0)
    if name == "mean":
        return st.mean(0)
    if name == "prod":
        return st.prod(0)
    if name == "min":
        return st.amin(0)
    if name == "max":
        return st.amax(0)
    return _custom_combine({i: v for i, v in enumerate(vals)})


class _Parts:
    """the components of one layer instance, built from the descriptor (deterministic parameters)"""

    def __init__(self, desc):
        g = torch.Generator().manual_seed(desc["seed"])
        dt, B = desc["dt"], desc["B"]
        delay = None if desc["delay"] is None else desc["delay"] * dt
        kind = desc["kind"]
        self.conns, self.neurons = {}, {}
        grown = bool(desc.get("grown")) and delay is not None

        def mk(ck, nin, nout):
            c = fac.make_connection(ck, dt, syn=desc["syn"], B=B, delay=(0.0 if grown else delay), bias=desc["bias"], nin=nin, nout=nout)
            if grown:
                # built with zero delay (single-slot histories) and given its delay range afterwards, through the documented setter
                c.synapse.delay = delay
            return c

        if kind == "serial":
            c = mk(desc["conn"], 4, 3)
            self.conns["serial"] = c
            self.neurons["serial"] = fac.make_neuron(desc["neuron"], c.outshape, dt, B)
        elif kind == "biclique":
            for i, ck in enumerate(desc["conns"]):
                self.conns[f"c{i}"] = mk(ck, 3, 3)
            for j in range(desc["nneurons"]):
                self.neurons[f"n{j}"] = fac.make_neuron(desc["neuron"] if j == 0 else desc["neuron2"], (3,), dt, B)
        else:
            self.conns["feedfwd"] = mk("dense", 4, 3)
            self.conns["lateral"] = mk("dense", 3, 2)
            self.conns["feedback"] = mk("dense", 2, 3)
            self.neurons["feedfwd"] = fac.make_neuron(desc["neuron"], (3,), dt, B)
            self.neurons["feedback"] = fac.make_neuron(desc["neuron2"], (2,), dt, B)
        for k, c in self.conns.items():
            # recurrent layers: strong lateral / feedback weights so that feedback spikes occur and matter
            fac.randomize(c, g, wscale=(5.0 if k in ("lateral", "feedback") else 1.5), delay_steps=desc["delay"], dt=dt)
        for n in list(self.conns.values()) + list(self.neurons.values()):
            n.train()
            if desc.get("f64"):
                n.to(torch.float64)
        if desc.get("prefire_neurons"):
            # the components have a past: every neuron group is driven to spike once before the layer is built
            for n in self.neurons.values():
                for _ in range(60):
                    if bool(n(torch.full((B,) + tuple(n.shape), 400.0)).all()):
                        break


_RNAMES = {"feedfwd_connection": "ff", "lateral_connection": "lat", "feedback_connection": "fb",
           "feedfwd_neuron": "exc", "feedback_neuron": "inh"}
_NKW = {"refrac_lock": False}


def _tfset(desc):
    """which of the recurrent layer's transforms are given (the rest are omitted)"""
    if "transform_set" in desc:
        return set(desc["transform_set"])
    return ({"ffo", "fbo", "lato"} if desc.get("transforms") else set()) | ({"lati", "fbi"} if desc.get("in_transforms") else set())


def _layer(desc, parts):
    kind = desc["kind"]
    if kind == "serial":
        tf = {None: None, "double": _double, "offset_kw": _offset_kw}[desc["transform"]]
        nm = dict(connection_name="proj", neuron_name="neur") if desc.get("names") else {}
        return neural.Serial(parts.conns["serial"], parts.neurons["serial"], transform=tf, **nm)
    if kind == "biclique":
        cs = [(k, c, _double) if desc["post"] and i == 0 else (k, c) for i, (k, c) in enumerate(parts.conns.items())]
        ntf = _double_inplace if desc.get("pre_inplace") else _double
        ns = [(k, n, ntf) if desc["pre"] and j == 0 else (k, n) for j, (k, n) in enumerate(parts.neurons.items())]
        comb = _custom_combine if desc["combine"] == "custom" else desc["combine"]
        return neural.Biclique(cs, ns, combine=comb)
    kw = {}
    tf = _tfset(desc)
    if "ffo" in tf:
        kw["feedfwd_out_transform"] = _double
    if "fbo" in tf:
        kw["feedback_out_transform"] = lambda x: x * -0.5
    if "lato" in tf:
        kw["lateral_out_transform"] = _double
    # documented: applied to the spikes before they enter the lateral / feedback connection (one-to-many: a tuple)
    if "lati" in tf:
        kw["lateral_in_transform"] = lambda s: (~s,)
    if "fbi" in tf:
        kw["feedback_in_transform"] = lambda s: (s.roll(1, -1),)
    return neural.RecurrentSerial(parts.conns["feedfwd"], parts.conns["lateral"], parts.conns["feedback"],
                                  parts.neurons["feedfwd"], parts.neurons["feedback"],
                                  trainable_feedback=desc["trainable_feedback"], **kw,
                                  **({f"{k}_name": v for k, v in _RNAMES.items()} if desc.get("names") else {}))


def _inputs(desc, parts, g):
    B = desc["B"]
    if desc["kind"] == "biclique":
        x = {k: (torch.rand((B,) + tuple(c.inshape), generator=g) < desc["p"],) for k, c in parts.conns.items()}
        if desc.get("subset") and len(x) > 1 and float(torch.rand(1, generator=g)) < 0.4:
            # documented: only the connections named in the inputs are run on that call
            keep = sorted(x)[: 1 + int(torch.randint(0, len(x) - 1, (1,), generator=g))]
            x = {k: x[k] for k in keep}
        return x
    first = parts.conns["serial" if desc["kind"] == "serial" else "feedfwd"]
    return (torch.rand((B,) + tuple(first.inshape), generator=g) < desc["p"],)


_ARGS_USED = [0]


def _extra_args(desc, parts_or_layer_conns, x):
    """additional positional inputs for the lateral / feedback connections of a recurrent layer (injected currents for a
    DeltaPlus synapse), a deterministic function of this step's input so that layer and hand-composed twin agree"""
    if not (desc.get("rargs") and desc["syn"] == "deltaplus"):
        return None, None
    lvl = float(x[0].float().mean())
    lat, fb = parts_or_layer_conns["lateral"], parts_or_layer_conns["feedback"]
    B = desc["B"]
    el = torch.full((B,) + tuple(lat.inshape), 0.5 + lvl, dtype=lat.weight.dtype)
    ef = torch.full((B,) + tuple(fb.inshape), -0.25 - lvl, dtype=fb.weight.dtype)
    return el, ef


def _step_layer(desc, layer, x):
    """-> (outputs dict name->tensor, intermediates dict or None)"""
    kind, cap = desc["kind"], desc["capture"]
    nkw = desc.get("nkw")
    _NKW = desc.get("nkw_dict") or globals()["_NKW"]     # C11 routes adapt=False to every neuron group this way
    cbits = desc.get("ckw", 0)
    if kind == "serial":
        kw = {"offset": 1.5} if desc["transform"] == "offset_kw" else {}
        if nkw:
            kw["neuron_kwargs"] = dict(_NKW)
        if cbits:
            kw["connection_kwargs"] = {"route_marker": "serial"}
        r = layer(*x, capture_intermediate=cap, **kw)
        return ({"serial": r[0]}, {"serial": r[1]}) if cap else ({"serial": r}, None)
    if kind == "biclique":
        kw = {"neuron_kwargs": {n: dict(_NKW) for n in (layer.neurons_ if desc.get("nkw_all") else ["n0"])}} if nkw else {}
        if cbits:
            kw["connection_kwargs"] = {k: {"route_marker": k} for i, k in enumerate(sorted(x)) if cbits >> (i % 3) & 1}
        r = layer(x, capture_intermediate=cap, **kw)
        return (r[0], r[1]) if cap else (r, None)
    kw = {"feedback_neuron_kwargs": dict(_NKW), "feedfwd_neuron_kwargs": dict(_NKW)} if nkw else {}
    for i, cn in enumerate(("feedfwd", "lateral", "feedback")):
        if cbits >> i & 1:
            kw[f"{cn}_connection_kwargs"] = {"route_marker": cn}
    if desc.get("rargs") and desc["syn"] == "deltaplus":
        names = _RNAMES if desc.get("names") else None
        conns = {"lateral": layer.get_connection(names["lateral_connection"] if names else "lateral"),
                 "feedback": layer.get_connection(names["feedback_connection"] if names else "feedback")}
        el, ef = _extra_args(desc, conns, x)
        kw["lateral_connection_args"], kw["feedback_connection_args"] = (el,), (ef,)
        _ARGS_USED[0] += 1
    r = layer(*x, capture_intermediate=cap, **kw)
    if cap:
        inter = r[1]
        if desc.get("names"):
            back = {"ff": "feedfwd", "lat": "lateral", "fb": "feedback"}
            inter = {back.get(k, k): v for k, v in inter.items()}
        return {"feedfwd": r[0][0], "feedback": r[0][1]}, inter
    return {"feedfwd": r[0], "feedback": r[1]}, None


class _Hand:
    """hand-composed twin: the documented wiring spelled out"""

    def __init__(self, desc, parts):
        self.d, self.p = desc, parts
        self.fb_spikes = None

    def step(self, x):
        d, p = self.d, self.p
        kind = d["kind"]
        if kind == "serial":
            c = p.conns["serial"](*x)
            v = c
            if d["transform"] == "double":
                v = c * 2.0
            elif d["transform"] == "offset_kw":
                v = c + 1.5
            return {"serial": p.neurons["serial"](v, **(_NKW if d.get("nkw") else {}))}, {"serial": c}
        if kind == "biclique":
            inter = {k: p.conns[k](*x[k]) for k in p.conns if k in x}
            vals = [(inter[k] * 2.0 if d["post"] and i == 0 else inter[k]) for i, k in enumerate(p.conns) if k in x]
            comb = _ref_combine(d["combine"], vals)
            outs = {}
            for j, (k, n) in enumerate(p.neurons.items()):
                outs[k] = n(comb * 2.0 if d["pre"] and j == 0 else comb, **(_NKW if d.get("nkw") and k == "n0" else {}))
            return outs, inter
        ffn, fbn = p.neurons["feedfwd"], p.neurons["feedback"]
        if self.fb_spikes is None:
            self.fb_spikes = torch.zeros((d["B"],) + tuple(fbn.shape), dtype=torch.bool)
        tf = _tfset(d)
        cff = p.conns["feedfwd"](*x)
        el, ef = _extra_args(d, p.conns, x)
        cfb = p.conns["feedback"](self.fb_spikes.roll(1, -1) if "fbi" in tf else self.fb_spikes, *(() if ef is None else (ef,)))
        drive = (cff * 2.0 if "ffo" in tf else cff) + (cfb * -0.5 if "fbo" in tf else cfb)
        sff = ffn(drive, **(_NKW if d.get("nkw") else {}))
        clat = p.conns["lateral"](~sff if "lati" in tf else sff, *(() if el is None else (el,)))
        sfb = fbn(clat * 2.0 if "lato" in tf else clat, **(_NKW if d.get("nkw") else {}))
        self.fb_spikes = sfb
        return {"feedfwd": sff, "feedback": sfb}, {"feedfwd": cff, "feedback": cfb, "lateral": clat}


def _state(parts):
    out = {}
    for k, c in parts.conns.items():
        out[f"c.{k}.current"] = c.synapse.current.detach().clone()
        out[f"c.{k}.spike"] = c.synapse.spike.detach().clone()
    for k, n in parts.neurons.items():
        out[f"n.{k}.voltage"] = n.voltage.detach().clone()
        out[f"n.{k}.refrac"] = n.refrac.detach().clone()
    return out


def _params(parts):
    out = {}
    for k, c in parts.conns.items():
        out[f"c.{k}.weight"] = c.weight.detach().clone()
        if c.biased:
            out[f"c.{k}.bias"] = c.bias.detach().clone()
        if c.delayedby is not None:
            out[f"c.{k}.delay"] = c.delay.detach().clone()
    for k, n in parts.neurons.items():
        for a in ("threshold_adaptation", "current_adaptation"):
            if hasattr(n, a):
                out[f"n.{k}.{a}"] = getattr(n, a).detach().clone()
    return out


def _same(a, b):
    if a.shape != b.shape:
        return False
    if a.dtype == torch.bool or b.dtype == torch.bool:
        return bool(torch.equal(a, b))
    # float32 on both sides: identical components, but reductions may associate differently
    return bool(torch.allclose(a, b, rtol=1e-5, atol=1e-5, equal_nan=True))


def run_case(ctx, desc):
    kind = desc["kind"]
    if ctx.counters.get("sampled." + kind, 0) == 0:
        ctx.count("sampled." + kind)
        ctx.sample(desc)
    tag = kind + ("." + desc["combine"] if kind == "biclique" else "")
    if kind == "biclique" and desc["pre"] and desc.get("pre_inplace") and desc["nneurons"] > 1:
        ctx.count("bicliques_with_inplace_transform_before_another_group")
    if kind == "recurrent":
        tfs = _tfset(desc)
        tag += ".tf-" + ("+".join(sorted(tfs)) or "none")
        if tfs and len(tfs) < 5 and ("fbo" in tfs) != ("ffo" in tfs):
            ctx.count("recurrent_layers_with_one_sided_output_transforms")
    # ---------------- (a) wiring: layer vs hand-composed twin -------------------------------------------------
    try:
        pL, pH = _Parts(desc), _Parts(desc)
        layer = _layer(desc, pL)
        hand = _Hand(desc, pH)
    except Exception as e:  # noqa: BLE001
        return ctx.violation(ctx.exc_signature(e, f"construct.{kind}"), f"{type(e).__name__}: {str(e)[:160]}", desc)
    g = torch.Generator().manual_seed(desc["seed"] + 1)
    xs = [_inputs(desc, pL, g) for _ in range(desc["T"])]
    routed = []
    if desc.get("ckw"):
        # what each connection is actually called with (a forward pre-hook of the harness on the real connection)
        for cname, c in pL.conns.items():
            c.register_forward_pre_hook((lambda m, a, k, cname=cname: routed.append((cname, k.get("route_marker")))), with_kwargs=True)
    for t, x in enumerate(xs):
        rdesc = {**desc, "T": t + 1}
        del routed[:]
        ctx.case(f"wiring/{tag}/{desc['neuron']}/{desc['syn']}/delay{desc['delay']}/cap{int(desc['capture'])}/B{desc['B']}")
        ctx.count("wiring_steps_checked")
        a0 = _ARGS_USED[0]
        try:
            if kind == "recurrent" and desc.get("partial_clear_at") == t:
                if desc.get("partial_clear_kind") == "components_only":
                    # the components return to rest, the stored feedback spikes are kept
                    layer.clear(clear_feedback=False)
                    for m in list(pH.conns.values()) + list(pH.neurons.values()):
                        m.clear()
                else:
                    # layer-level clear only: the stored feedback spikes are forgotten, the components keep their state
                    layer.clear(submodules=False)
                    hand.fb_spikes = None
                ctx.count("partial_clears")
            if t in (2, 5) and desc.get("updaters"):
                # the layer's update between two steps (nothing pending: a no-op on the parameters): it forwards to its connections'
                # update, which applies and clears ACCUMULATED UPDATES - the dynamic state of synapses and neurons is not its business
                layer.update()
                for c in pH.conns.values():
                    c.update()
                ctx.count("layer_updates_between_steps")
            outs, inter = _step_layer(desc, layer, x)
        except Exception as e:  # noqa: BLE001
            return ctx.violation(ctx.exc_signature(e, f"forward.{tag}"), f"{type(e).__name__}: {str(e)[:160]}", rdesc)
        if desc.get("ckw"):
            ctx.count("connection_kwargs_routing_checks")
            cb = desc["ckw"]
            if kind == "serial":
                want = {"serial": "serial"}
            elif kind == "biclique":
                want = {k: (k if cb >> (i % 3) & 1 else None) for i, k in enumerate(sorted(x))}
            else:
                want = {cn: (cn if cb >> i & 1 else None) for i, cn in enumerate(("feedfwd", "lateral", "feedback"))}
            if dict(routed) != want or len(routed) != len(want):
                return ctx.violation(f"{tag.split('.tf-')[0]}.connection_kwargs_routing",
                                     f"step {t}: connections were called with {sorted(routed, key=str)}, documented routing gives {want}", rdesc)
        if _ARGS_USED[0] > a0:
            ctx.count("recurrent_steps_with_additional_connection_inputs")
        eouts, einter = hand.step(x)
        if set(outs) != set(eouts):
            return ctx.violation(f"{tag}.output_keys", f"outputs {sorted(outs)} expected {sorted(eouts)}", rdesc)
        for k in eouts:
            nshape = (desc["B"],) + tuple(pL.neurons[k].shape)
            if tuple(outs[k].shape) != nshape:
                return ctx.violation(f"{tag}.output_shape", f"output '{k}' has shape {tuple(outs[k].shape)}, neuron group is {nshape}", rdesc)
            if not _same(outs[k], eouts[k]):
                return ctx.violation(f"{tag}.output_ne_documented_wiring", f"step {t}: output '{k}' differs from the hand-composed wiring", rdesc)
        if inter is not None:
            for k in einter:
                if k not in inter or not _same(inter[k], einter[k]):
                    return ctx.violation(f"{tag}.capture_intermediate", f"step {t}: intermediate '{k}' differs", rdesc)
        # the components the layer drove are in the state the documented wiring leaves them in (voltages, refractory
        # times, synaptic currents): keyword arguments routed to a component show here before they show in a spike
        sl, sh = _state(pL), _state(pH)
        for k in sh:
            if not _same(sl[k], sh[k]):
                return ctx.violation(f"{tag}.component_state_ne_documented_wiring",
                                     f"step {t}: {k} differs from the hand-composed wiring", rdesc)
        ctx.count("component_states_compared")
    # ---------------- (b) clear() at every position --------------------------------------------------------------------
    for kpos in range(0, desc["T"] + 1):
        rdesc = {**desc, "clear_at": kpos}
        pA = _Parts(desc)
        A = _layer(desc, pA)
        ug = torch.Generator().manual_seed(desc["seed"] + 77 + kpos)
        try:
            if desc.get("updaters"):
                for c in pA.conns.values():
                    c.updater = c.defaultupdater()
            for t, x in enumerate(xs[:kpos]):
                _step_layer(desc, A, x)
                if desc.get("updaters"):
                    for c in pA.conns.values():
                        w = c.weight
                        c.updater.weight = (torch.rand(w.shape, generator=ug).to(w.dtype) * 0.01, torch.rand(w.shape, generator=ug).to(w.dtype) * 0.01)
                        if (t + kpos) % 2 == 0:
                            _ = c.updater.weight.pos, c.updater.weight.neg       # a logger looking at the pending parts
                    if t % 3 == 2:
                        A.update()
        except Exception as e:  # noqa: BLE001
            return ctx.violation(ctx.exc_signature(e, f"forward.{tag}"), f"{type(e).__name__}: {str(e)[:160]}", rdesc)
        before = _params(pA)
        ctx.case(f"clear/{tag}/{desc['neuron']}/{desc['syn']}/delay{desc['delay']}/at{'0' if kpos == 0 else 'end' if kpos == desc['T'] else 'mid'}")
        ctx.count("clear_positions_checked")
        # the documented option of the adaptive neurons' clear, handed to the layer (which forwards keywords to its parts): learned
        # adaptations are then dropped too, everything else behaves as for the plain clear
        drop = bool(desc.get("drop_adaptations")) and kpos % 2 == 1
        if drop:
            rdesc["clear_keywords"] = {"keep_adaptations": False}
        try:
            if drop:
                A.clear(keep_adaptations=False)
                if any(k.startswith("n.") for k in before):
                    ctx.count("clears_dropping_learned_adaptations")
            else:
                A.clear()
        except Exception as e:  # noqa: BLE001
            return ctx.violation(ctx.exc_signature(e, f"clear.{kind}"), f"clear() raised {type(e).__name__}: {str(e)[:160]}", rdesc)
        after = _params(pA)
        for k in before:
            if drop and k.startswith("n."):
                continue
            if not _same(before[k], after[k]):
                return ctx.violation(f"{kind}.clear.changed_learned_state", f"clear() changed {k}", rdesc)
        if desc.get("updaters"):
            # a freshly built layer has nothing pending: neither does a cleared one, and applying "nothing" changes nothing
            ctx.count("clears_with_pending_updates_checked")
            for cn, c in pA.conns.items():
                for nm in c.updater.names:
                    acc = getattr(c.updater, nm)
                    if acc.pos is not None or acc.neg is not None:
                        return ctx.violation(f"{kind}.clear.pending_update_survives",
                                             f"after clear() the updater of connection '{cn}' still reports a pending {nm} update "
                                             f"(pos {'set' if acc.pos is not None else 'None'}, neg {'set' if acc.neg is not None else 'None'})", rdesc)
            try:
                A.update()
            except Exception as e:  # noqa: BLE001
                return ctx.violation(ctx.exc_signature(e, f"update_after_clear.{kind}"), f"{type(e).__name__}: {str(e)[:160]}", rdesc)
            again = _params(pA)
            for k in before:
                if not _same(after[k], again[k]):
                    return ctx.violation(f"{kind}.clear.update_after_clear_changes_parameters", f"update() right after clear() changed {k}", rdesc)
        # fresh copy carrying the learned parameters / adaptations
        pF = _Parts({**desc, "prefire_neurons": False})   # freshly built: components without a past
        for k in pA.conns:
            fac.copy_params(pA.conns[k], pF.conns[k])
        for k in pA.neurons:
            if not drop:
                fac.copy_params(pA.neurons[k], pF.neurons[k])
        Fl = _layer(desc, pF)
        if drop:
            fa, ff = _params(pA), _params(pF)
            for k in ff:
                if k.startswith("n.") and not _same(fa[k], ff[k]):
                    return ctx.violation(f"{kind}.clear.keep_adaptations_false_keeps_adaptation",
                                         f"after clear(keep_adaptations=False) {k} differs from a freshly built group", rdesc)
        sa, sf = _state(pA), _state(pF)
        for k in sf:
            if not _same(sa[k], sf[k]):
                return ctx.violation(f"{kind}.clear.dynamic_state_not_reset", f"after clear() {k} differs from a freshly built layer", rdesc)
        for t, x in enumerate(xs[: desc["replay"]]):
            try:
                oa, _ = _step_layer(desc, A, x)
                of, _ = _step_layer(desc, Fl, x)
            except Exception as e:  # noqa: BLE001
                return ctx.violation(ctx.exc_signature(e, f"forward_after_clear.{tag}"), f"{type(e).__name__}: {str(e)[:160]}", rdesc)
            for k in of:
                if not _same(oa[k], of[k]):
                    return ctx.violation(f"{kind}.clear.replay_differs_from_fresh", f"replay step {t} after clear at {kpos}: output '{k}' differs from a fresh layer", rdesc)
        ctx.count("replays_checked")
        if kpos in (0, desc["T"] // 2, desc["T"]) and not desc.get("prefire_neurons"):
            # a cleared layer is as good as a freshly built one also for what comes next: its components are given another batch
            # size through their setters and the layer is stepped at that size
            B2 = desc["B"] + 1
            try:
                A.clear()
                for m in list(pA.conns.values()) + list(pA.neurons.values()):
                    m.batchsz = B2
                d2 = {**desc, "B": B2}
                o2, _ = _step_layer(d2, A, _inputs(d2, pA, torch.Generator().manual_seed(desc["seed"] + 5 + kpos)))
            except Exception as e:  # noqa: BLE001
                return ctx.violation(ctx.exc_signature(e, f"resized_after_clear.{kind}"),
                                     f"cleared at {kpos}, batch size then set to {B2} through the components' setters: "
                                     f"{type(e).__name__}: {str(e)[:160]}", rdesc)
            ctx.count("steps_at_a_new_batch_size_after_clear")
            for k2, o in o2.items():
                if tuple(o.shape) != (B2,) + tuple(pA.neurons[k2].shape):
                    return ctx.violation(f"{kind}.clear.output_shape_after_batch_resize", f"output '{k2}' has shape {tuple(o.shape)}", rdesc)
