"""C13 - resizing a record keeps the newest observations in order and the size formula;
constraint bookkeeping (ShapedTensor.reconstrain) stays consistent.

M-model: (a) temporal setters on RecordTensor judged by the literal size formula and a before/after
read(k) comparison with unique ids; (b) shape-constraint edits on RecordTensor; (c) a dict model of
ShapedTensor constraints under random add / edit / remove / assign sequences.
"""

from __future__ import annotations

import math

import numpy as np
import torch
import torch.nn as nn

import inferno
from inferno import RecordTensor, ShapedTensor

STORAGES = ("buffer", "param", "none", "empty", "ubuf", "uparam", "emptyparam")


def _size(dt, dur, inc):
    return max(math.ceil(dur / dt) + bool(inc), 1)


def generate(ctx):
    rng = ctx.rng
    thorough = ctx.tier == "thorough"
    dts = [1.0, 0.5, 0.1, 1.3, 0.7, 0.25, 2.0, 0.3]
    for _ in range(9000 if thorough else 450):
        dt0 = rng.choice(dts + [round(rng.uniform(0.05, 3.0), 4)])
        k0 = rng.choice([0, 1, 2, 3, 4, 6, 9])
        dur0 = rng.choice([k0 * dt0, k0 * dt0, (k0 + 0.5) * dt0, round(k0 * dt0, 3)])
        inc0 = rng.random() < 0.5
        steps = []
        for _ in range(rng.randint(1, 4)):
            which = rng.choice(["dt", "duration", "inclusive"])
            if which == "dt":
                val = rng.choice(dts + [round(rng.uniform(0.05, 3.0), 4)])
            elif which == "duration":
                k1 = rng.choice([0, 1, 2, 3, 5, 8, 12])
                base = rng.choice(dts)
                val = rng.choice([k1 * base, (k1 + 0.5) * base, 0.0, 0.3, 0.7, 3.9000000000000004, round(rng.uniform(0.0, 12.0), 4)])
            else:
                val = rng.random() < 0.5
            steps.append({"set": which, "value": val, "pushes_after": rng.randint(0, 3)})
        yield {"part": "temporal", "dt": dt0, "duration": dur0, "inclusive": inc0,
               "storage": rng.choice(STORAGES), "shape": list(rng.choice([(), (2,), (2, 3)])),
               "pushes": rng.choice([0, 1, 2, 5, 11, 23]), "ptr_extra": rng.randint(0, 9), "steps": steps,
               # element type of the stored observations (integer observations beyond 2**24 do not survive a detour through float32)
               "store_dtype": rng.choice([None, None, None, "int64", "bool", "float64", "int32"]),
               "align_neg": rng.choice([None, None, None, 1, 2, 5])}
    for _ in range(2500 if thorough else 160):
        shape = rng.choice([(2,), (3, 2), (2, 3, 2)])
        ops = []
        for _ in range(rng.randint(2, 7)):
            dim = rng.choice(list(range(-len(shape), len(shape))))
            ops.append({"dim": dim, "size": rng.choice([None, 1, 2, 3, 4, 5])})
        yield {"part": "recshape", "N": rng.choice([1, 2, 3, 5]), "shape": list(shape),
               "storage": rng.choice(["buffer", "param"]), "pushes": rng.randint(0, 9), "ops": ops}
        if rng.random() < 0.3:
            ops2 = [{"dim": rng.randint(-3, 2), "size": rng.choice([None, 1, 2, 3, 4])} for _ in range(rng.randint(2, 7))]
            yield {"part": "recshape", "lazy": True, "N": rng.choice([1, 2, 3, 5]), "shape": [],
                   "storage": rng.choice(["none", "empty", "ubuf", "uparam", "emptyparam"]), "pushes": 0, "ops": ops2}
    for _ in range(9000 if thorough else 700):
        nd = rng.randint(1, 4)
        shape = [rng.randint(1, 4) for _ in range(nd)]
        ops = []
        for _ in range(rng.randint(3, 14)):
            r = rng.random()
            dim = rng.randint(-4, 3)
            if r < 0.75:
                sz = rng.choice([None, None, 1, 2, 3, 4, 5])
                if sz is not None and rng.random() < 0.5 and -nd <= dim < nd:
                    sz = shape[dim]  # likely compatible
                ops.append({"op": "reconstrain", "dim": dim, "size": sz})
            elif r < 0.9:
                nd2 = rng.choice([nd, nd, rng.randint(1, 4)])
                shp = [rng.randint(1, 4) for _ in range(nd2)]
                if nd2 > 1 and rng.random() < 0.25:
                    shp[rng.randrange(nd2)] = 0     # no elements but more than one dimension: NOT an ignorable value, constraints apply
                ops.append({"op": "assign", "shape": shp})
            elif r < 0.95:
                ops.append({"op": "assign_none"})
            else:
                ops.append({"op": rng.choice(["toggle_strict", "toggle_live"])})
        yield {"part": "shaped", "shape": shape, "storage": rng.choice(["buffer", "param", "none", "empty"]),
               "strict": rng.random() < 0.5, "live": rng.random() < 0.3, "ops": ops, "sibling": rng.random() < 0.6,
               "init": {str(d): shape[d] for d in rng.sample(range(-nd, nd), rng.randint(0, min(2, nd)))}}


def _np(t):
    return t.detach().to(torch.float64).numpy()


# ------------------------------------------------------------------------------------------
# (a) temporal setters
# ------------------------------------------------------------------------------------------

def _mk_value(storage, shape, dtype=None):
    if storage == "buffer":
        return torch.zeros(shape, dtype=dtype)
    if storage == "param":
        return nn.Parameter(torch.zeros(shape), requires_grad=False)
    if storage == "none":
        return None
    if storage == "empty":
        return torch.empty(0)
    if storage == "ubuf":
        return nn.UninitializedBuffer()
    if storage == "uparam":
        return nn.UninitializedParameter(requires_grad=False)
    if storage == "emptyparam":
        return nn.Parameter(torch.empty(0), requires_grad=False)
    raise AssertionError(storage)


def _run_temporal(ctx, desc):
    shape = tuple(desc["shape"])
    numel = int(np.prod(shape)) if shape else 1
    owner = inferno.Module()
    sdt = {None: None, "int64": torch.int64, "int32": torch.int32, "bool": torch.bool, "float64": torch.float64}[desc.get("store_dtype")]
    if desc["storage"] != "buffer":
        sdt = None
    RecordTensor.create(owner, "rec", desc["dt"], desc["duration"], _mk_value(desc["storage"], shape, sdt),
                        inclusive=desc["inclusive"])
    rt = owner.rec
    cur = {"dt": desc["dt"], "duration": desc["duration"], "inclusive": desc["inclusive"]}
    if rt.recordsz != _size(**{"dt": cur["dt"], "dur": cur["duration"], "inc": cur["inclusive"]}):
        ctx.violation("temporal.constructor.size_formula", "constructor record size differs from the formula", desc)
        return
    ctr = [0]

    def push():
        ctr[0] += 1
        x = (ctr[0] * 32 + np.arange(numel, dtype=np.float64)).reshape(shape)
        if sdt in (torch.int64, torch.float64):
            rt.push((torch.from_numpy(x) + 2.0 ** 40 + 1).to(sdt))
        elif sdt == torch.int32:
            rt.push((torch.from_numpy(x) + 2.0 ** 30 + 1).to(sdt))
        elif sdt == torch.bool:
            rt.push(torch.as_tensor(np.asarray((x + ctr[0] // 3) % 2 == 0)))
        else:
            rt.push(torch.from_numpy(x).to(torch.float32))

    initialised_kinds = ("buffer", "param")
    lazy = desc["storage"] not in initialised_kinds
    npush = desc["pushes"]
    for _ in range(npush):
        push()
    if not rt.ignored and desc["ptr_extra"]:
        rt.incr(desc["ptr_extra"])
    if not rt.ignored and desc.get("align_neg"):
        # documented index semantics: a negative index counts from the end (the pointer then holds a negative value)
        rt.align(-min(desc["align_neg"], rt.recordsz))
        ctx.count("resizes_after_align_to_a_negative_index")
    for si, st in enumerate(desc["steps"]):
        rdesc = {**desc, "steps": desc["steps"][: si + 1]}
        old_n = rt.recordsz
        ignored = rt.ignored
        before = None if ignored else [_np(rt.read(k)).copy() for k in range(old_n + 1)]
        was_param = isinstance(rt.value, nn.Parameter)
        new = dict(cur)
        new[st["set"]] = st["value"]
        exp_n = _size(new["dt"], new["duration"], new["inclusive"])
        kind = "grow" if exp_n > old_n else "shrink" if exp_n < old_n else "noop"
        state = "uninitialised" if ignored else "initialised"
        ctx.case(f"temporal/{st['set']}/{kind}/{state}/{desc['storage']}/old{min(old_n, 4)}/new{min(exp_n, 4)}/"
                 f"ptr{'0' if (ignored or rt.pointer == 0) else '+'}")
        ctx.count(f"temporal.{kind}.{state}")
        try:
            setattr(rt, st["set"], st["value"])
        except Exception as e:  # noqa: BLE001
            ctx.violation(ctx.exc_signature(e, f"set_{st['set']}.{kind}.{state}"),
                          f"assigning {st['set']}={st['value']} raised {type(e).__name__}: {str(e)[:120]} "
                          f"(storage {state}, size {old_n}->{exp_n})", rdesc)
            return
        cur = new
        if rt.recordsz != exp_n:
            ctx.violation(f"temporal.{st['set']}.size_formula",
                          f"recordsz {rt.recordsz} != max(ceil({cur['duration']}/{cur['dt']})+{cur['inclusive']},1)={exp_n}", rdesc)
            return
        for nm in ("dt", "duration", "inclusive"):
            if getattr(rt, nm) != cur[nm]:
                ctx.violation(f"temporal.{st['set']}.getter_{nm}", f"{nm} reports {getattr(rt, nm)} expected {cur[nm]}", rdesc)
                return
        if ignored:
            if not rt.ignored or rt.pointer != 0:
                ctx.violation(f"temporal.{st['set']}.uninitialised_state", "uninitialised storage changed state", rdesc)
                return
        else:
            val = rt.value
            if val.shape[0] != exp_n or tuple(val.shape[1:]) != shape:
                ctx.violation(f"temporal.{st['set']}.{kind}.storage_shape", f"storage shape {tuple(val.shape)}", rdesc)
                return
            if sdt is not None:
                ctx.count("resizes_of_records_with_other_element_types")
                if val.dtype != sdt:
                    ctx.violation(f"temporal.{st['set']}.{kind}.storage_dtype_changed", f"storage was {sdt}, is {val.dtype} after the resize", rdesc)
                    return
            if was_param and not isinstance(val, nn.Parameter):
                ctx.violation(f"temporal.{st['set']}.{kind}.parameter_lost", "storage is no longer a Parameter", rdesc)
                return
            keep = min(old_n, exp_n)
            for k in range(1, exp_n + 1):
                got = _np(rt.read(k))
                exp = before[k] if k <= keep else np.zeros(shape)
                if not np.array_equal(got, exp):
                    which = "kept_observation" if k <= keep else "new_slot_not_zero"
                    ctx.violation(f"temporal.{st['set']}.{kind}.{which}",
                                  f"read({k}) after resize {old_n}->{exp_n}: got {got.tolist()} expected {exp.tolist()}", rdesc,
                                  {"k": k, "old": old_n, "new": exp_n})
                    return
            ctx.count("resize_readbacks")
        for _ in range(st["pushes_after"]):
            push()
        if st["pushes_after"] and (rt.ignored or rt.value.shape[0] != exp_n):
            ctx.violation(f"temporal.{st['set']}.push_after_resize", "push after resize gave wrong storage length", rdesc)
            return


# ------------------------------------------------------------------------------------------
# (b) shape constraints of a record
# ------------------------------------------------------------------------------------------

def _resize_ref(arr, axis, size):
    cur = arr.shape[axis]
    if cur > size:
        idx = [slice(None)] * arr.ndim
        idx[axis] = slice(cur - size, None)
        return arr[tuple(idx)]
    if cur < size:
        shp = list(arr.shape)
        shp[axis] = size - cur
        return np.concatenate([np.zeros(shp), arr], axis)
    return arr


def _run_recshape_lazy(ctx, desc):
    """shape constraints on a record whose storage does not exist yet: pure bookkeeping, never a failure"""
    owner = inferno.Module()
    RecordTensor.create(owner, "rec", 1.0, float(desc["N"]), _mk_value(desc["storage"], ()))
    rt = owner.rec
    model = {}
    for oi, op in enumerate(desc["ops"]):
        rdesc = {**desc, "ops": desc["ops"][: oi + 1]}
        dim, size = op["dim"], op["size"]
        kindop = "remove" if size is None else ("edit" if dim in model else "add")
        ctx.case(f"recshape_lazy/{kindop}/dim{'+' if dim >= 0 else '-'}/{desc['storage']}")
        ctx.count("lazy_recshape_ops")
        try:
            rt.reconstrain(dim, size)
            refused = None
        except (ValueError, RuntimeError) as e:
            refused = e
        except Exception as e:  # noqa: BLE001
            return ctx.violation(ctx.exc_signature(e, f"record.reconstrain_lazy.{kindop}"),
                                 f"reconstrain({dim},{size}) raised {type(e).__name__}: {str(e)[:120]}", rdesc)
        if kindop == "remove" and dim not in model:
            if refused is None:
                return ctx.violation("recshape_lazy.remove.missing_constraint_accepted", "removing a constraint that does not exist succeeded", rdesc)
        elif refused is not None:
            return ctx.violation(f"recshape_lazy.{kindop}.refused_on_uninitialised_storage",
                                 f"reconstrain({dim},{size}) refused although there is no storage to disagree with: {str(refused)[:120]}", rdesc)
        elif kindop == "remove":
            model.pop(dim)
        else:
            model[dim] = size
        if dict(rt.constraints) != model:
            return ctx.violation(f"recshape_lazy.{kindop}.constraints_getter", f"constraints {dict(rt.constraints)} != {model}", rdesc)
        if rt.recordsz != desc["N"]:
            return ctx.violation(f"recshape_lazy.{kindop}.record_dim_changed", "record size changed", rdesc)


def _run_recshape(ctx, desc):
    if desc.get("lazy"):
        return _run_recshape_lazy(ctx, desc)
    shape = tuple(desc["shape"])
    n = desc["N"]
    numel = int(np.prod(shape))
    owner = inferno.Module()
    val = torch.zeros(shape)
    if desc["storage"] == "param":
        val = nn.Parameter(val, requires_grad=False)
    RecordTensor.create(owner, "rec", 1.0, float(n), val)
    rt = owner.rec
    for i in range(desc["pushes"]):
        x = ((i + 1) * 64 + np.arange(numel, dtype=np.float64)).reshape(shape)
        rt.push(torch.from_numpy(x).to(torch.float32))
    model = {}
    for oi, op in enumerate(desc["ops"]):
        rdesc = {**desc, "ops": desc["ops"][: oi + 1]}
        dim, size = op["dim"], op["size"]
        before = [_np(rt.read(k)).copy() for k in range(n)]
        cons_before = dict(rt.constraints)
        kindop = "remove" if size is None else ("edit" if dim in model else "add")
        ctx.case(f"recshape/{kindop}/dim{'+' if dim >= 0 else '-'}/{desc['storage']}/nd{len(shape)}")
        ctx.count("recshape_ops")
        cur_shape = tuple(rt.value.shape[1:])
        nd = len(cur_shape)
        refused = None
        try:
            rt.reconstrain(dim, size)
        except (ValueError, RuntimeError) as e:
            refused = e
        except Exception as e:  # noqa: BLE001
            ctx.violation(ctx.exc_signature(e, f"record.reconstrain.{kindop}"),
                          f"reconstrain({dim},{size}) raised {type(e).__name__}: {str(e)[:120]}", rdesc)
            return
        after = [_np(rt.read(k)) for k in range(n)]
        if refused is not None:
            if dict(rt.constraints) != cons_before or any(not np.array_equal(a, b) for a, b in zip(before, after)):
                ctx.violation(f"recshape.{kindop}.refused_with_side_effects", "refused reconstrain changed state", rdesc)
                return
            if kindop == "add" and -nd <= dim < nd and cur_shape[dim] == size and _dims_ok(model, dim, nd, True):
                ctx.violation("recshape.add.compatible_refused", f"compatible constraint refused: {refused}", rdesc)
                return
            continue
        if kindop == "remove":
            model.pop(dim, None)
            exp = before
        elif kindop == "add":
            if not (-nd <= dim < nd and cur_shape[dim] == size):
                ctx.violation("recshape.add.incompatible_accepted",
                              f"constraint {dim}:{size} accepted on observation shape {cur_shape}", rdesc)
                return
            model[dim] = size
            exp = before
        else:
            model[dim] = size
            exp = [_resize_ref(b, dim, size) for b in before]
        if rt.recordsz != n or rt.value.shape[0] != n:
            ctx.violation(f"recshape.{kindop}.record_dim_changed", "record dimension changed", rdesc)
            return
        if rt.constraints != model:
            ctx.violation(f"recshape.{kindop}.constraints_getter", f"constraints {rt.constraints} != {model}", rdesc)
            return
        for k in range(n):
            if after[k].shape != exp[k].shape or not np.array_equal(after[k], exp[k]):
                ctx.violation(f"recshape.{kindop}.data", f"read({k}) after reconstrain({dim},{size}) wrong", rdesc,
                              {"got": after[k].tolist(), "expected": exp[k].tolist()})
                return


def _dims_ok(cons, newdim, nd, strict):
    dims = list(cons) + [newdim]
    pos = [d for d in dims if d >= 0]
    neg = [d for d in dims if d < 0]
    need_pos = max(pos) + 1 if pos else 0
    need_neg = -min(neg) if neg else 0
    return nd >= (need_pos + need_neg if strict else max(need_pos, need_neg))


# ------------------------------------------------------------------------------------------
# (c) ShapedTensor constraint bookkeeping
# ------------------------------------------------------------------------------------------

def _dimensionality(cons, strict):
    if not cons:
        return 0
    pos = [d for d in cons if d >= 0]
    neg = [d for d in cons if d < 0]
    need_pos = max(pos) + 1 if pos else 0
    need_neg = -min(neg) if neg else 0
    return need_pos + need_neg if strict else max(need_pos, need_neg)


def _satisfies(shape, cons, strict):
    if len(shape) < _dimensionality(cons, strict):
        return False
    return all(shape[d] == s for d, s in cons.items())


def _ignored_shape(shape):
    return shape is None or (int(np.prod(shape)) == 0 and len(shape) <= 1)


def _run_shaped(ctx, desc):
    strict, live = desc["strict"], desc["live"]
    shape = tuple(desc["shape"])
    init = {int(k): v for k, v in desc["init"].items()}
    owner = inferno.Module()
    storage = desc["storage"]
    ctr = [0]

    def fresh(shp):
        ctr[0] += 1
        n = int(np.prod(shp))
        return (torch.arange(n, dtype=torch.float32) + 1000 * ctr[0]).reshape(shp)

    if storage == "buffer":
        val = fresh(shape)
    elif storage == "param":
        val = nn.Parameter(fresh(shape), requires_grad=False)
    elif storage == "none":
        val = None
    else:
        val = torch.empty(0)
    if val is not None and val.numel() and not _satisfies(shape, init, strict):
        init = {}
    ShapedTensor.create(owner, "st", val, init, strict=strict, live=live)
    st = owner.st
    mcons = dict(init)
    # a sibling built from the very same constraints mapping (a module configuring several state tensors from one dict):
    # whatever happens to `st` is none of its business, and the caller's mapping stays the caller's
    sib = sib_cons = sib_data = None
    if desc.get("sibling") and storage in ("buffer", "none") and init:
        sval = None if val is None else (val.detach().clone() + 0.5)
        ShapedTensor.create(owner, "sib", sval, init, strict=strict, live=live)
        sib, sib_cons, sib_data = owner.sib, dict(init), (None if sval is None else _np(sval).copy())
        ctx.count("sibling_tensors_sharing_a_constraints_mapping")
    init_copy = dict(init)
    mdata = None if (val is None or val.numel() == 0) else _np(val).copy()
    for oi, op in enumerate(desc["ops"]):
        rdesc = {**desc, "ops": desc["ops"][: oi + 1]}
        mshape = None if mdata is None else mdata.shape
        ign = _ignored_shape(mshape)
        valid_before = ign or _satisfies(mshape, mcons, strict)
        if op["op"] in ("toggle_strict", "toggle_live"):
            # plain flags: from now on validity / dimensionality (strict) and assignment testing (live) follow the new value
            if op["op"] == "toggle_strict":
                strict = not strict
                st.strict = strict
            else:
                live = not live
                st.live = live
            ctx.case(f"shaped/{op['op']}", nontrivial=False)
            ctx.count("flag_toggles")
        elif op["op"] == "assign_none":
            if storage == "param":
                continue
            st.value = None
            mdata = None
            ctx.case(f"shaped/assign_none/{'strict' if strict else 'loose'}", nontrivial=False)
        elif op["op"] == "assign":
            newt = fresh(tuple(op["shape"]))
            ok = _satisfies(tuple(op["shape"]), mcons, strict)
            ctx.case(f"shaped/assign/{'live' if live else 'dead'}/{'ok' if ok else 'bad'}/{'strict' if strict else 'loose'}")
            try:
                st.value = newt
                raised = False
            except ValueError:
                raised = True
            except Exception as e:  # noqa: BLE001
                ctx.violation(ctx.exc_signature(e, "shaped.assign"), f"assignment raised {type(e).__name__}", rdesc)
                return
            if live and not ok:
                if not raised:
                    ctx.violation("shaped.assign.live_accepts_incompatible", "live constraint accepted an incompatible tensor", rdesc)
                    return
            else:
                if raised:
                    ctx.violation("shaped.assign.refused_compatible", "assignment of an acceptable tensor refused", rdesc)
                    return
                mdata = _np(newt).copy()
        else:
            dim, size = op["dim"], op["size"]
            kindop = "remove" if size is None else ("edit" if dim in mcons else "add")
            ctx.case(f"shaped/{kindop}/{'strict' if strict else 'loose'}/dim{'+' if dim >= 0 else '-'}/"
                     f"{'ign' if ign else 'valid' if valid_before else 'invalid'}/{storage}")
            ctx.count("shaped_reconstrain_ops")
            cons_before = dict(st.constraints)
            data_before = None if (st.value is None or st.ignored) else _np(st.value).copy()
            refused = None
            try:
                st.reconstrain(dim, size)
            except (ValueError, RuntimeError) as e:
                refused = e
            except Exception as e:  # noqa: BLE001
                ctx.violation(ctx.exc_signature(e, f"shaped.reconstrain.{kindop}"),
                              f"reconstrain({dim},{size}) raised {type(e).__name__}: {str(e)[:120]}", rdesc)
                return
            data_after = None if (st.value is None or st.ignored) else _np(st.value)
            same_data = (data_before is None and data_after is None) or (
                data_before is not None and data_after is not None and data_before.shape == data_after.shape
                and np.array_equal(data_before, data_after))
            # --- expected outcome from the documented semantics
            if kindop == "remove" and dim not in mcons:
                exp = "refuse"
            elif kindop == "remove":
                exp = "ok" if valid_before else "either"   # invalidated tensors: documented RuntimeError
            elif kindop == "add":
                if ign:
                    exp = "ok"
                elif not valid_before:
                    exp = "refuse"
                else:
                    exp = "ok" if _satisfies(mshape, {**mcons, dim: size}, strict) else "refuse"
            else:
                if ign:
                    exp = "ok"
                else:
                    newc = {**mcons, dim: size}
                    consistent = len(mshape) >= _dimensionality(mcons, strict) and _consistent(newc, len(mshape))
                    exp = "ok" if consistent else "refuse"
            if refused is not None:
                if exp == "ok":
                    ctx.violation(f"shaped.{kindop}.refused_but_legal", f"legal reconstrain({dim},{size}) refused: {refused}", rdesc,
                                  {"constraints": mcons, "shape": mshape})
                    return
                removed_invalid = kindop == "remove" and dim in mcons and not valid_before
                if not same_data or (dict(st.constraints) != cons_before and not removed_invalid):
                    ctx.violation(f"shaped.{kindop}.refused_with_side_effects", "refused reconstrain changed data or constraints", rdesc,
                                  {"constraints_before": cons_before, "after": dict(st.constraints)})
                    return
                if removed_invalid:
                    mcons = dict(st.constraints)
                ctx.count("shaped_refusals")
            else:
                if exp == "refuse":
                    ctx.violation(f"shaped.{kindop}.accepted_but_incompatible",
                                  f"reconstrain({dim},{size}) accepted on shape {mshape} with {mcons} strict={strict}", rdesc)
                    return
                if kindop == "remove":
                    mcons.pop(dim)
                    if not same_data:
                        ctx.violation("shaped.remove.data_altered", "removing a constraint altered data", rdesc)
                        return
                elif kindop == "add":
                    mcons[dim] = size
                    if not same_data:
                        ctx.violation("shaped.add.data_altered", "adding a constraint altered data", rdesc)
                        return
                else:
                    mcons[dim] = size
                    if not ign:
                        expd = mdata if _satisfies(mshape, mcons, strict) else _resize_ref(mdata, dim, size)
                        if data_after is None or data_after.shape != expd.shape or not np.array_equal(data_after, expd):
                            ctx.violation("shaped.edit.data", f"edit {dim}->{size}: data not tail-preserved/zero-prepended", rdesc,
                                          {"got_shape": None if data_after is None else data_after.shape, "exp_shape": expd.shape})
                            return
                        mdata = expd.copy()
                if storage == "param" and not isinstance(st.value, nn.Parameter):
                    ctx.violation(f"shaped.{kindop}.parameter_lost", "value is no longer a Parameter", rdesc)
                    return
        # --- invariants after every operation
        if init != init_copy:
            ctx.violation("shaped.callers_constraints_mapping_modified", f"the dict passed at construction is now {init}, was {init_copy}", rdesc)
            return
        if sib is not None:
            ctx.count("sibling_isolation_checks")
            sv = sib.value
            sv_none = sv is None or sv.numel() == 0
            if dict(sib.constraints) != sib_cons or (sib_data is None) != sv_none or (
                    sib_data is not None and (tuple(sv.shape) != sib_data.shape or not np.array_equal(_np(sv), sib_data))):
                ctx.violation("shaped.sibling_sharing_constraints_mapping_affected",
                              f"an operation on one tensor changed another built from the same mapping: constraints "
                              f"{dict(sib.constraints)} (were {sib_cons})", rdesc)
                return
        mshape = None if mdata is None else mdata.shape
        if dict(st.constraints) != mcons:
            ctx.violation("shaped.constraints_getter", f"constraints {dict(st.constraints)} != model {mcons}", rdesc)
            return
        exp_valid = _ignored_shape(mshape) or _satisfies(mshape, mcons, strict)
        ctx.count("valid_flag_checks")
        if bool(st.valid) != exp_valid:
            ctx.violation("shaped.valid_flag." + ("reported_valid_but_unsatisfied" if st.valid else "reported_invalid_but_satisfied"),
                          f"valid={st.valid} shape={mshape} constraints={mcons} strict={strict}", rdesc)
            return
        if st.dimensionality != _dimensionality(mcons, strict):
            ctx.violation("shaped.dimensionality", f"dimensionality {st.dimensionality}", rdesc)
            return
        probe = tuple(1 + (ctr[0] + oi + d) % 4 for d in range(1 + (ctr[0] + oi) % 3))
        ctx.count("compatible_queries")
        if bool(st.compatible(torch.zeros(probe))) != _satisfies(probe, mcons, strict):
            ctx.violation("shaped.compatible_query", f"compatible(zeros{probe}) = {st.compatible(torch.zeros(probe))} with {mcons} strict={strict}", rdesc)
            return
        v = st.value
        v_empty = v is None or isinstance(v, (nn.UninitializedBuffer, nn.UninitializedParameter)) or (
            v.numel() == 0 and v.ndim <= 1)
        if (mdata is None and not v_empty) or (mdata is not None and (
                v_empty or tuple(v.shape) != mdata.shape or not np.array_equal(_np(v), mdata))):
            ctx.violation("shaped.value_drift", "value differs from model", rdesc)
            return


def _consistent(cons, nd):
    seen = {}
    for d, s in cons.items():
        if not (-nd <= d < nd):
            return False
        ax = d % nd
        if seen.setdefault(ax, s) != s:
            return False
    return True


def run_case(ctx, desc):
    if ctx.counters.get("sampled." + desc["part"], 0) == 0:
        ctx.count("sampled." + desc["part"])
        ctx.sample(desc)
    {"temporal": _run_temporal, "recshape": _run_recshape, "shaped": _run_shaped}[desc["part"]](ctx, desc)
