"""C03 - neuron step contract: threshold, reset, absolute refractory period, spike flag.

M-inv on every forward of the 8 neuron classes (float32 and float64) + M-model one-step contract:
an independent float64 transcription of the documented update equations predicts, from the OBSERVED
pre-step state and the input, the spike set, the post-step voltage and the refractory time.
"""

from __future__ import annotations

import math

import numpy as np
import torch

import inferno
from inferno import neural

CLASSES = ["LIF", "ALIF", "GLIF1", "GLIF2", "QIF", "Izhikevich", "EIF", "AdEx"]
THRESH_ADAPT = ("ALIF", "GLIF2")
CURR_ADAPT = ("Izhikevich", "AdEx")


def _params(rng, cls, dt):
    refrac_choices = [0.0, dt, 2 * dt, 2.5 * dt, 3 * dt, 0.4 * dt, 0.25 * dt, 0.75 * dt, 1.5 * dt] + ([0.3] if dt == 0.1 else [])
    p = {"refrac_t": rng.choice(refrac_choices)}
    rest = rng.choice([-70.0, -65.0, -60.0])
    thr = rng.choice([-50.0, -55.0, -45.0])
    K = rng.choice([1, 1, 2])
    if cls in ("LIF", "GLIF1"):
        p.update(rest_v=rest, reset_v=rng.choice([rest, rest - 5.0, rest + 3.0]), thresh_v=thr,
                 time_constant=rng.choice([5.0, 20.0, 2.0]), resistance=rng.choice([1.0, 0.5, 10.0]))
    elif cls == "ALIF":
        p.update(rest_v=rest, reset_v=rng.choice([rest, rest - 5.0]), thresh_eq_v=thr,
                 tc_membrane=rng.choice([5.0, 20.0]), tc_adaptation=[rng.choice([10.0, 50.0, 200.0]) for _ in range(K)],
                 spike_increment=[rng.choice([0.5, 2.0, 5.0, -1.0, -3.0]) for _ in range(K)], resistance=rng.choice([1.0, 5.0]))
    elif cls == "GLIF2":
        p.update(rest_v=rest, reset_v_add=rng.choice([0.0, 2.0, 5.0]), reset_v_mul=rng.choice([0.0, 0.2, 0.5]),
                 thresh_eq_v=thr, tc_membrane=rng.choice([5.0, 20.0]),
                 rc_adaptation=[rng.choice([0.01, 0.05, 0.2]) for _ in range(K)],
                 spike_increment=[rng.choice([0.5, 2.0, 5.0, -1.0, -3.0]) for _ in range(K)], resistance=rng.choice([1.0, 5.0]))
    elif cls in ("QIF", "Izhikevich"):
        crit = rng.choice([-55.0, -50.0])
        thr2 = rng.choice([-40.0, 30.0, crit])
        p.update(rest_v=rest, crit_v=crit, affinity=rng.choice([0.04, 0.1, 1.0]), reset_v=rng.choice([rest, -65.0, -75.0]),
                 thresh_v=thr2, resistance=rng.choice([1.0, 5.0]))
        if cls == "QIF":
            p.update(time_constant=rng.choice([5.0, 20.0, 1.0]))
        else:
            p.update(tc_membrane=rng.choice([5.0, 20.0, 1.0]), tc_adaptation=[rng.choice([10.0, 50.0]) for _ in range(K)],
                     voltage_coupling=[rng.choice([0.0, 0.2, -0.1]) for _ in range(K)],
                     spike_increment=[rng.choice([0.0, 2.0, 8.0]) for _ in range(K)])
    else:
        rheo = rng.choice([-55.0, -50.0])
        p.update(rest_v=rest, rheobase_v=rheo, sharpness=rng.choice([1.0, 2.0, 5.0]), reset_v=rng.choice([rest, -68.0]),
                 thresh_v=rng.choice([-40.0, 0.0, rheo]), resistance=rng.choice([1.0, 5.0]))
        if cls == "EIF":
            p.update(time_constant=rng.choice([5.0, 20.0]))
        else:
            p.update(tc_membrane=rng.choice([5.0, 20.0]), tc_adaptation=[rng.choice([10.0, 50.0]) for _ in range(K)],
                     voltage_coupling=[rng.choice([0.0, 0.2, -0.1]) for _ in range(K)],
                     spike_increment=[rng.choice([0.0, 2.0, 8.0]) for _ in range(K)])
    if rng.random() < 0.35:
        # off the menu: continuous draws inside the same documented domains (every value above is one fixed point of these ranges)
        u = rng.uniform
        p["refrac_t"] = round(u(0.0, 3.5 * dt), 4)
        for k in list(p):
            if k in ("time_constant", "tc_membrane"):
                p[k] = round(u(1.0, 30.0), 3)
            elif k == "resistance":
                p[k] = round(u(0.3, 10.0), 3)
            elif k == "rest_v":
                p[k] = round(u(-75.0, -58.0), 2)
            elif k in ("thresh_v", "thresh_eq_v"):
                p[k] = round(u(-56.0, -40.0), 2)
            elif k == "tc_adaptation":
                p[k] = [round(u(5.0, 250.0), 2) for _ in p[k]]
            elif k == "rc_adaptation":
                p[k] = [round(u(0.005, 0.3), 4) for _ in p[k]]
            elif k == "spike_increment":
                p[k] = [round(u(-3.0, 8.0) if cls in THRESH_ADAPT else u(0.0, 8.0), 3) for _ in p[k]]
            elif k == "voltage_coupling":
                p[k] = [round(u(-0.15, 0.3), 3) for _ in p[k]]
            elif k == "reset_v" :
                p[k] = round(u(-80.0, -57.0), 2)
            elif k == "reset_v_add":
                p[k] = round(u(0.0, 6.0), 2)
            elif k == "reset_v_mul":
                p[k] = round(u(0.0, 0.6), 3)
            elif k == "affinity":
                p[k] = round(u(0.02, 1.0), 3)
            elif k == "sharpness":
                p[k] = round(u(0.8, 6.0), 3)
        for k in ("crit_v", "rheobase_v"):
            if k in p:
                p[k] = round(u(p["rest_v"] + 2.0, -45.0), 2)
                p["thresh_v"] = rng.choice([p[k], round(u(p[k], p[k] + 70.0), 2)])     # documented: crit / rheobase <= threshold
                p["reset_v"] = round(u(p["thresh_v"] - 30.0, p["thresh_v"] - 0.5), 2)     # documented: reset < threshold
    return p


def generate(ctx):
    rng = ctx.rng
    th = ctx.tier == "thorough"
    n = 1000 if th else 112
    for i in range(n):
        cls = CLASSES[i % 8]
        dt = rng.choice([1.0, 0.5, 0.1, 1.3, round(rng.uniform(0.05, 2.5), 3)])
        T = rng.randint(40, 200 if th else 90)
        steps = []
        for _ in range(T):
            steps.append({"drive": rng.choice(["random", "random", "random", "zero", "huge+", "huge-", "negative",
                                               "near+", "near-", "near+", "strong"]),
                          "lock": rng.random() < 0.8, "adapt": rng.choice([None, None, True, False]),
                          "train": rng.random() < 0.5, "clear": rng.random() < 0.02, "keep": rng.random() < 0.6})
        yield {"part": "trajectory", "cls": cls, "dt": dt, "params": _params(rng, cls, dt),
               "dtype": rng.choice(["float64", "float64", "float32"]), "B": rng.randint(1, 4),
               # documented: how the per-sample adaptation updates are combined (default mean)
               "batch_reduction": rng.choice([None, None, "sum", "amax", "mean"]),
               "built_dt": rng.choice([None, None, 1.0, 0.25, 2.0]),
               "shape": list(rng.choice([(3,), (2, 2), (1,), (2, 1, 2), (5,)])), "seed": rng.randrange(1 << 30),
               "steps": steps}
    # the adaptation update functions on their own (one of them is shipped without a neuron class that uses it): the
    # documented update, frozen for refractory neurons, floor applied after a spike
    for i in range(300 if th else 30):
        yield {"part": "adaptation_fn", "fn": ["currents_linear", "thresholds_linear_voltage", "thresholds_linear_spike"][i % 3],
               "B": rng.choice([None, 1, 3]), "shape": list(rng.choice([(3,), (2, 2), (1,)])), "K": rng.randint(1, 3),
               "dt": rng.choice([1.0, 0.5, 0.1, round(rng.uniform(0.05, 2.5), 3)]), "refracs": rng.random() < 0.7,
               "floor": rng.choice([None, 0.0, -1.5, 2.0]), "with_spikes": rng.random() < 0.8, "seed": rng.randrange(1 << 30),
               "tensor_params": rng.random() < 0.5}
    # exact ties v == threshold on representable numbers (quadratic neurons, fresh state: dynamics term vanishes)
    for cls in ("QIF", "Izhikevich"):
        for off in (0.0, 2.0 ** -40, -(2.0 ** -40)):
            yield {"part": "tie", "cls": cls, "offset": off, "dtype": "float64"}
    # the same for the linear models: voltage placed on the threshold and driven with the current that makes the threshold a
    # fixed point of the (exact) linear update, all terms exactly representable; also on a threshold moved by adaptation
    for cls in ("LIF", "GLIF1", "ALIF", "GLIF2"):
        for off in (0.0, 2.0 ** -30, -(2.0 ** -30)):
            for adapted in ((False, True) if cls in ("ALIF", "GLIF2") else (False,)):
                for dtype in ("float64", "float32"):
                    yield {"part": "tie", "cls": cls, "offset": off if dtype == "float64" else off * 2.0 ** 14, "dtype": dtype,
                           "adapted": adapted, "B": 1 + (cls == "GLIF2")}


# ------------------------------------------------------------------------------------------

def _build(desc):
    cls = getattr(neural, desc["cls"])
    kw = dict(desc["params"])
    if desc.get("batch_reduction") and (desc["cls"] in THRESH_ADAPT or desc["cls"] in CURR_ADAPT):
        kw["batch_reduction"] = {"sum": torch.sum, "amax": torch.amax, "mean": torch.mean}[desc["batch_reduction"]]
    n = cls(tuple(desc["shape"]), desc.get("built_dt") or desc["dt"], batch_size=desc["B"], **kw)
    if desc.get("built_dt") and desc["built_dt"] != desc["dt"]:
        n.dt = desc["dt"]          # the step time reached through the documented setter after construction
    if desc["dtype"] == "float64":
        n.to(torch.float64)
    return n


def _np(t):
    return t.detach().to(torch.float64).numpy().copy()


def _adapt_of(n, cls):
    if cls in THRESH_ADAPT:
        return n.threshold_adaptation
    if cls in CURR_ADAPT:
        return n.current_adaptation
    return None


def _integrate(cls, p, dt, v, I):
    """documented one-step voltage update (float64 numpy)"""
    R = p.get("resistance", 1.0)
    if cls in ("LIF", "GLIF1", "ALIF", "GLIF2"):
        tau = p.get("time_constant", p.get("tc_membrane"))
        d = math.exp(-dt / tau)
        return p["rest_v"] + (v - p["rest_v"] - R * I) * d + R * I
    tau = p.get("time_constant", p.get("tc_membrane"))
    if cls in ("QIF", "Izhikevich"):
        g = p["affinity"] * (v - p["rest_v"]) * (v - p["crit_v"])
    else:
        with np.errstate(over="ignore"):
            g = -(v - p["rest_v"]) + p["sharpness"] * np.exp((v - p["rheobase_v"]) / p["sharpness"])
    with np.errstate(over="ignore", invalid="ignore"):
        return v + dt / tau * (g + R * I)


def _solve_input(cls, p, dt, v, target):
    """input current that makes the integrated voltage land on `target` (for near-threshold drives)"""
    R = p.get("resistance", 1.0)
    tau = p.get("time_constant", p.get("tc_membrane"))
    if cls in ("LIF", "GLIF1", "ALIF", "GLIF2"):
        d = math.exp(-dt / tau)
        return (target - p["rest_v"] - (v - p["rest_v"]) * d) / (R * (1 - d))
    if cls in ("QIF", "Izhikevich"):
        g = p["affinity"] * (v - p["rest_v"]) * (v - p["crit_v"])
    else:
        with np.errstate(over="ignore"):
            g = -(v - p["rest_v"]) + p["sharpness"] * np.exp((v - p["rheobase_v"]) / p["sharpness"])
    return ((target - v) * tau / dt - g) / R


def _adaptation_fn(ctx, desc):
    import inferno.neural.functional as nf
    g = torch.Generator().manual_seed(desc["seed"])
    K, dt = desc["K"], desc["dt"]
    nshape = tuple(desc["shape"])
    full = nshape if desc["B"] is None else (desc["B"],) + nshape
    rnd = lambda *shp, lo=0.0, hi=1.0: torch.rand(shp, generator=g, dtype=torch.float64) * (hi - lo) + lo
    adapt = rnd(*nshape, K, lo=-3.0, hi=3.0)
    volt = rnd(*full, lo=-80.0, hi=-40.0)
    spikes = rnd(*full) < 0.4
    refr = torch.where(rnd(*full) < 0.5, torch.zeros(full, dtype=torch.float64), rnd(*full, lo=0.1, hi=3.0))
    par = (lambda lo, hi: rnd(K, lo=lo, hi=hi)) if desc["tensor_params"] else (lambda lo, hi: float(rnd(1, lo=lo, hi=hi)))
    refracs = refr if desc["refracs"] else None
    fn = desc["fn"]
    ctx.case(f"adaptation_fn/{fn}/B{desc['B']}/K{K}/refracs{int(desc['refracs'])}/floor{desc['floor']}/spk{int(desc['with_spikes'])}")
    A, V, S = adapt.numpy(), volt.numpy()[..., None], spikes.numpy()[..., None]
    frozen = (refr.numpy()[..., None] > 0) if desc["refracs"] else np.zeros(full + (1,), dtype=bool)
    tonp = lambda v: v.numpy() if isinstance(v, torch.Tensor) else v
    try:
        if fn == "currents_linear":
            tc, a, b, rest = par(5.0, 60.0), par(-0.5, 1.5), par(0.0, 2.0), -60.0
            got = nf.adaptive_currents_linear(adapt, volt, spikes, step_time=dt, rest_v=rest, time_constant=tc,
                                              voltage_coupling=a, spike_increment=b, refracs=refracs)
            exp = np.where(frozen, A, A + (dt / tonp(tc)) * (tonp(a) * (V - rest) - A)) + tonp(b) * S
        elif fn == "thresholds_linear_voltage":
            ar, rr, rest = par(0.0, 0.05), par(0.0, 0.3), -60.0
            floor = desc["floor"]
            got = nf.adaptive_thresholds_linear_voltage(adapt, volt, step_time=dt, rest_v=rest, adapt_rate=ar, rebound_rate=rr,
                                                        adapt_reset_min=floor, spikes=(spikes if desc["with_spikes"] else None),
                                                        refracs=refracs)
            exp = np.where(frozen, A, A + dt * (tonp(ar) * (V - rest) - tonp(rr) * A))
            if floor is not None and desc["with_spikes"]:
                exp = np.where(S, np.maximum(exp, floor), exp)
        else:
            tc, inc = par(5.0, 60.0), par(0.0, 2.0)
            got = nf.adaptive_thresholds_linear_spike(adapt, spikes, step_time=dt, time_constant=tc, spike_increment=inc, refracs=refracs)
            exp = np.where(frozen, A, A * np.exp(-dt / tonp(tc))) + tonp(inc) * S
    except Exception as e:  # noqa: BLE001
        return ctx.violation(ctx.exc_signature(e, f"adaptation_fn.{fn}"), f"{type(e).__name__}: {str(e)[:140]}", desc)
    ctx.count("adaptation_function_checks", int(exp.size))
    # a python-float increment times a boolean spike tensor is formed in single precision (torch's default): 1e-7 relative
    if tuple(got.shape) != exp.shape or not np.allclose(got.numpy(), exp, rtol=1e-6, atol=1e-6):
        return ctx.violation(f"adaptation_fn.{fn}.ne_documented_update", "returned adaptations differ from the documented update "
                             "(frozen while refractory, increment / floor after a spike)", desc)


def run_case(ctx, desc):
    if desc["part"] == "tie":
        return _tie(ctx, desc)
    if desc["part"] == "adaptation_fn":
        return _adaptation_fn(ctx, desc)
    cls, dt, p = desc["cls"], desc["dt"], desc["params"]
    if ctx.counters.get("sampled." + cls, 0) == 0 and len(ctx.samples) < 4:
        ctx.count("sampled." + cls)
        ctx.sample({**desc, "steps": desc["steps"][:5]})
    g = np.random.default_rng(desc["seed"])
    try:
        n = _build(desc)
    except Exception as e:  # noqa: BLE001
        return ctx.violation(ctx.exc_signature(e, f"construct.{cls}"), f"{type(e).__name__}: {str(e)[:140]}", desc)
    if desc.get("built_dt") and desc["built_dt"] != desc["dt"]:
        ctx.count("trajectories_of_retimed_neurons")
    full = (desc["B"],) + tuple(desc["shape"])
    f64 = desc["dtype"] == "float64"
    tdt = torch.float64 if f64 else torch.float32
    refrac_t = p["refrac_t"]
    ratio = refrac_t / dt
    if abs(ratio - round(ratio)) < 1e-9:
        ratio = round(ratio)
    W = max(1, math.ceil(ratio))
    last_spike = np.full(full, -10 ** 9, dtype=np.int64)
    adaptive = cls in THRESH_ADAPT or cls in CURR_ADAPT
    thr_key = "thresh_eq_v" if cls in THRESH_ADAPT else "thresh_v"
    for t, st in enumerate(desc["steps"]):
        rdesc = {**desc, "steps": desc["steps"][: t + 1]}
        if st.get("clear"):
            # back to the resting state in the middle of a trajectory: no refractory window is pending any more
            a_before = None if not adaptive else _np(_adapt_of(n, cls))
            keep = st.get("keep", True)
            if adaptive and not keep:
                n.clear(keep_adaptations=False)
            else:
                n.clear()
            last_spike = np.full(full, -10 ** 9, dtype=np.int64)
            ctx.count("mid_trajectory_clears")
            if adaptive:
                a_after = _np(_adapt_of(n, cls))
                want = a_before if keep else np.zeros_like(a_before)
                if not np.array_equal(a_after, want, equal_nan=True):
                    return ctx.violation(f"{cls}.clear.adaptation_{'not_kept' if keep else 'not_reset'}",
                                         f"clear(keep_adaptations={keep}) left the learned adaptation in the wrong state", rdesc)
            if bool((n.refrac != 0).any()) or not bool(torch.isfinite(n.voltage).all()):
                return ctx.violation(f"{cls}.clear.not_resting", "after clear() a refractory time is pending or the voltage is not finite", rdesc)
        n.train(st["train"])
        v0, r0 = _np(n.voltage), _np(n.refrac)
        # remaining refractory time after this step's decrement, in the neuron's own arithmetic
        rdec = _np((n.refrac.detach().clone() - dt).clamp(min=0))
        a0 = None if not adaptive else _np(_adapt_of(n, cls))
        theta = p[thr_key] + (a0.sum(-1) if cls in THRESH_ADAPT else 0.0)
        theta = np.broadcast_to(theta, full)
        iadj = a0.sum(-1) if cls in CURR_ADAPT else 0.0
        # ---- drive
        d = st["drive"]
        if d == "zero":
            I = np.zeros(full)
        elif d == "huge+":
            I = np.full(full, 1e6)
        elif d == "huge-":
            I = np.full(full, -1e6)
        elif d == "negative":
            I = -np.abs(g.normal(size=full)) * 20
        elif d == "strong":
            I = np.abs(g.normal(size=full)) * 60 + 20
        elif d.startswith("near"):
            sign = 1 if d == "near+" else -1
            target = theta + sign * 1e-4 * np.maximum(np.abs(theta), 1.0)
            with np.errstate(all="ignore"):
                I = _solve_input(cls, p, dt, v0, target) + iadj
            I = np.where(np.isfinite(I) & (np.abs(I) < 1e9), I, 0.0)
        else:
            I = g.normal(size=full) * 30 + 10
        It = torch.from_numpy(I).to(tdt)
        I = _np(It)  # what the neuron really receives (rounded to its dtype)
        kw = {"refrac_lock": st["lock"]}
        if adaptive:
            kw["adapt"] = st["adapt"]
        try:
            s = n(It, **kw)
        except Exception as e:  # noqa: BLE001
            return ctx.violation(ctx.exc_signature(e, f"forward.{cls}"), f"{type(e).__name__}: {str(e)[:140]}", rdesc)
        v1, r1 = _np(n.voltage), _np(n.refrac)
        a1 = None if not adaptive else _np(_adapt_of(n, cls))
        sp = _np(s).astype(bool)
        attr = _np(n.spike).astype(bool)
        ctx.case(f"{cls}/{desc['dtype']}/dt{dt}/refrac{round(refrac_t / dt, 2)}/{d}/lock{int(st['lock'])}/"
                 f"adapt{st['adapt'] if adaptive else '-'}/{'spk' if sp.any() else 'quiet'}/B{min(desc['B'], 2)}")
        ctx.count("steps_checked")
        ctx.count("spikes_seen", int(sp.sum()))
        if s.dtype != torch.bool or tuple(s.shape) != full:
            return ctx.violation(f"{cls}.output.shape_dtype", f"{tuple(s.shape)} {s.dtype}", rdesc)
        # ---- model-free invariants ----------------------------------------------------------------
        if (r1 < 0).any() or np.isnan(r1).any():
            return ctx.violation(f"{cls}.I1.negative_refractory_time", f"min refrac {r1.min()}", rdesc)
        if not np.array_equal(attr, sp):
            mech = f"spike_attribute.ne_returned_spikes.{'refrac_t_zero' if refrac_t == 0 else 'refrac_t_positive'}"
            ctx.violation(mech, f"{cls}: neuron.spike differs from the spikes just returned (refrac_t={refrac_t})", rdesc,
                          {"attr": attr.tolist(), "returned": sp.tolist()})
            if refrac_t != 0:
                return
        if (sp & (rdec != 0)).any():
            return ctx.violation(f"{cls}.I3.spike_while_refractory", "a neuron spiked with refractory time remaining", rdesc)
        if sp.any():
            ctx.count("reset_checks", int(sp.sum()))
            if not np.array_equal(r1[sp], np.full(int(sp.sum()), _np(torch.tensor(refrac_t, dtype=tdt)))):
                return ctx.violation(f"{cls}.I4.refractory_not_set", "refrac after a spike is not refrac_t", rdesc)
            if cls != "GLIF2" and not np.array_equal(v1[sp], np.full(int(sp.sum()), _np(torch.tensor(p["reset_v"], dtype=tdt)))):
                return ctx.violation(f"{cls}.I4.not_reset_in_same_step", "a spiking neuron is not at its reset voltage", rdesc,
                                     {"v": v1[sp].tolist()})
        early = sp & ((t - last_spike) < W)
        if early.any():
            return ctx.violation(f"{cls}.I5.spike_inside_silence_window",
                                 f"spike {int((t - last_spike)[early].min())} steps after the previous one, window {W}", rdesc)
        inwin = (~sp) & ((t - last_spike) < W)
        if inwin.any():
            ctx.count("silence_window_steps", int(inwin.sum()))
            # (a voltage that has overflowed to nan / inf in an earlier unlocked step - reset far above the rheobase voltage of
            # an exponential model - is "unchanged" when it is still that non-finite value)
            if st["lock"] and not np.array_equal(v1[inwin], v0[inwin], equal_nan=True):
                return ctx.violation(f"{cls}.I5.voltage_changed_while_locked", "voltage changed inside the refractory window with locking", rdesc)
            if adaptive and st["lock"] and desc["B"] == 1 and (st["adapt"] or (st["adapt"] is None and st["train"])):
                m = np.broadcast_to(inwin[0][..., None], a0.shape)
                ctx.count("adaptation_freeze_checks", int(m.sum()))
                if not np.array_equal(a1[m], a0[m], equal_nan=True):
                    return ctx.violation(f"{cls}.I6.adaptation_changed_while_refractory", "adaptation changed during the refractory period", rdesc)
        if adaptive and not (st["adapt"] or (st["adapt"] is None and st["train"])):
            if not np.array_equal(a1, a0, equal_nan=True):
                return ctx.violation(f"{cls}.adapt_off.adaptation_changed", "adaptation changed although adapt was off", rdesc)
        # ---- model-based one-step contract (float64) ----------------------------------------------------
        if f64:
            mask = rdec == 0
            with np.errstate(all="ignore"):
                vint = _integrate(cls, p, dt, v0, (I - iadj) * mask)
            vpre = np.where(mask, vint, v0) if st["lock"] else vint
            finite = np.isfinite(vpre)
            margin = np.abs(vpre - theta)
            band = 1e-7 * np.maximum(np.abs(theta), 1.0)
            decide = finite & (margin > band)
            # +-inf still decides (inf >= theta), NaN never compared
            decide = decide | np.isinf(vpre)
            ctx.guard_compared += int(decide.sum())
            ctx.guard_skips += int((~decide & ~np.isnan(vpre)).sum())
            exp_sp = mask & (vpre >= theta)
            if (exp_sp != sp)[decide].any():
                which = (exp_sp & ~sp & decide).any()
                return ctx.violation(f"{cls}.step.{'missed_spike' if which else 'spurious_spike'}",
                                     "spike set differs from (out of refractory) & (integrated voltage >= threshold)", rdesc,
                                     {"vpre": vpre.tolist(), "theta": theta.tolist(), "mask": mask.tolist(), "spikes": sp.tolist()})
            ok = decide & finite
            if cls == "GLIF2":
                rv = p["rest_v"] + p["reset_v_mul"] * (vpre - p["rest_v"]) - p["reset_v_add"]
            else:
                rv = np.full(full, p["reset_v"])
            exp_v = np.where(sp, rv, vpre)
            exp_r = np.where(sp, refrac_t, rdec)
            with np.errstate(all="ignore"):
                badv = ok & ~np.isclose(v1, exp_v, rtol=1e-9, atol=1e-9)
            if badv.any():
                k = "reset_voltage" if (badv & sp).any() else ("held_voltage" if (badv & ~mask).any() else "integrated_voltage")
                return ctx.violation(f"{cls}.step.{k}", "post-step voltage differs from the documented update", rdesc,
                                     {"got": v1[badv].tolist()[:5], "expected": exp_v[badv].tolist()[:5]})
            if not np.allclose(r1[ok], exp_r[ok], rtol=0, atol=1e-12):
                return ctx.violation(f"{cls}.step.refractory_time", "post-step refractory time differs", rdesc)
            ctx.count("model_steps_checked")
            # the threshold / current "in force" at the next step: documented adaptation law, batch-averaged
            if adaptive and (st["adapt"] or (st["adapt"] is None and st["train"])) and np.isfinite(v1).all():
                incr = np.asarray(p["spike_increment"], dtype=np.float64)
                a0b = np.broadcast_to(a0, full + a0.shape[-1:])
                if cls in THRESH_ADAPT:
                    tc = np.asarray(p["tc_adaptation"] if cls == "ALIF" else [1.0 / r for r in p["rc_adaptation"]], dtype=np.float64)
                    moved = a0b * np.exp(-dt / tc)
                else:
                    tc = np.asarray(p["tc_adaptation"], dtype=np.float64)
                    vc = np.asarray(p["voltage_coupling"], dtype=np.float64)
                    moved = a0b + dt / tc * (vc * (v1 - p["rest_v"])[..., None] - a0b)
                frozen = (r1 > 0)[..., None] & st["lock"]
                per_sample = np.where(frozen, a0b, moved) + incr * sp[..., None]
                exp_a = {"sum": per_sample.sum(0), "amax": per_sample.max(0)}.get(desc.get("batch_reduction"), per_sample.mean(0))
                ctx.count("adaptation_law_checks", int(exp_a.size))
                # hyper-parameters are stored as float32 buffers (1e-7 relative) before the float64 cast
                if not np.allclose(a1, exp_a, rtol=1e-5, atol=1e-6 * max(1.0, float(np.abs(exp_a).max()))):
                    bad = ~np.isclose(a1, exp_a, rtol=1e-5, atol=1e-6 * max(1.0, float(np.abs(exp_a).max())))
                    return ctx.violation(f"{cls}.step.adaptation_law", "post-step adaptation differs from the documented update", rdesc,
                                         {"got": a1[bad].tolist()[:5], "expected": exp_a[bad].tolist()[:5]})
        # ---- bookkeeping
        last_spike = np.where(sp, t, last_spike)


def _tie_linear(ctx, desc):
    cls, off = desc["cls"], desc["offset"]
    tdt = torch.float64 if desc["dtype"] == "float64" else torch.float32
    B = desc.get("B", 1)
    if cls in ("LIF", "GLIF1"):
        kw = dict(rest_v=-64.0, reset_v=-70.0, thresh_v=-48.0, refrac_t=2.0, time_constant=8.0, resistance=2.0)
    elif cls == "ALIF":
        kw = dict(rest_v=-64.0, reset_v=-70.0, thresh_eq_v=-48.0, refrac_t=2.0, tc_membrane=8.0, tc_adaptation=[50.0],
                  spike_increment=[2.0], resistance=2.0)
    else:
        kw = dict(rest_v=-64.0, reset_v_add=1.0, reset_v_mul=0.25, thresh_eq_v=-48.0, refrac_t=2.0, tc_membrane=8.0,
                  rc_adaptation=[0.05], spike_increment=[2.0], resistance=2.0)
    n = getattr(neural, cls)((3,), 1.0, batch_size=B, **kw)
    n.to(tdt)
    n.eval()                                   # adaptations are not learned during the probe
    theta = 0.0
    if desc.get("adapted"):
        theta = 4.0                            # threshold -44 = equilibrium + adaptation, exactly representable
        n.threshold_adaptation = torch.full_like(n.threshold_adaptation, theta)
    thr = -48.0 + theta
    n.voltage = torch.full_like(n.voltage, thr)
    # R * I = thr - rest exactly, so (v - rest - R I) = 0 and the update returns rest + R I = thr bit for bit; a current
    # off by `off` lands on the corresponding side of the threshold
    I = torch.full((B, 3), (thr + 64.0) / 2.0 + off, dtype=tdt)
    s = n(I)
    exp = off >= 0
    ctx.case(f"tie/{cls}/off{'0' if off == 0 else ('+' if off > 0 else '-')}/{desc['dtype']}/adapted{int(bool(desc.get('adapted')))}")
    ctx.count("exact_ties_checked")
    ctx.count("exact_ties_checked.linear_models")
    if bool(s.all()) != exp or bool(s.any()) != exp:
        ctx.violation(f"{cls}.tie.{'at_threshold_must_spike' if off == 0 else 'one_step_off_threshold'}",
                      f"integrated voltage = threshold{'+' if off > 0 else ''}{off if off else ''}"
                      f"{' (adapted threshold)' if desc.get('adapted') else ''}: spikes={s.tolist()}", desc)


def _tie(ctx, desc):
    if desc["cls"] in ("LIF", "GLIF1", "ALIF", "GLIF2"):
        try:
            return _tie_linear(ctx, desc)
        except Exception as e:  # noqa: BLE001
            return ctx.violation(ctx.exc_signature(e, f"tie.{desc['cls']}"), f"{type(e).__name__}: {str(e)[:160]}", desc)
    cls, off = desc["cls"], desc["offset"]
    kw = dict(rest_v=-2.0, crit_v=-1.0, affinity=1.0, reset_v=-3.0, thresh_v=1.0, refrac_t=2.0, resistance=1.0)
    if cls == "QIF":
        kw["time_constant"] = 2.0
    else:
        kw.update(tc_membrane=2.0, tc_adaptation=10.0, voltage_coupling=0.0, spike_increment=1.0)
    n = getattr(neural, cls)((4,), 1.0, batch_size=1, **kw)
    n.to(torch.float64)
    # fresh neuron: v = rest so the quadratic term vanishes; v' = rest + (dt/tau) * R * I = -2 + 0.5 I
    I = torch.full((1, 4), 6.0 + 2 * off, dtype=torch.float64)
    s = n(I)
    exp = off >= 0
    ctx.case(f"tie/{cls}/off{off}")
    ctx.count("exact_ties_checked")
    if bool(s.all()) != exp or bool(s.any()) != exp:
        ctx.violation(f"{cls}.tie.{'at_threshold_must_spike' if off == 0 else 'one_ulp_off_threshold'}",
                      f"integrated voltage = threshold{'+' if off > 0 else ''}{off if off else ''}: spikes={s.tolist()}", desc)


_SUITE = {"steps": 0, "bad": []}


def run_suite(ctx):
    """the repository's neuron / layer tests with I1-I3 asserted on every forward of the 8 neuron classes"""
    from rv import suite

    for cname in CLASSES:
        cls = getattr(neural, cname)
        orig = cls.forward

        def forward(self, inputs, *a, _orig=orig, _cname=cname, **k):
            r0 = self.refrac.detach().clone()
            out = _orig(self, inputs, *a, **k)
            _SUITE["steps"] += 1
            try:
                rdec = (r0 - self.dt).clamp(min=0)
                if bool((self.refrac < 0).any()):
                    _SUITE["bad"].append((_cname, "I1.negative_refractory_time"))
                if bool((out & (rdec != 0)).any()):
                    _SUITE["bad"].append((_cname, "I3.spike_while_refractory"))
                if float(self.refrac_t) != 0 and not bool(torch.equal(self.spike, out)):
                    _SUITE["bad"].append((_cname, "I2.spike_attribute_ne_returned"))
            except Exception:  # noqa: BLE001  tests that hand-set exotic state
                pass
            return out

        cls.forward = forward
    suite.run_tests(ctx, ["neural/test_neurons.py", "neural/test_layers.py", "learn"])
    ctx.counters["suite_neuron_steps"] = _SUITE["steps"]
    ctx.case("suite/test_neurons+test_layers+learn")
    ctx.case("suite/invariants=I1,I2,I3")
    for cname, mech in sorted(set(_SUITE["bad"])):
        ctx.violation(f"suite.{cname}.{mech}", "invariant broken while the repository's tests ran", {"kind": "suite"})
