"""C10 - Updater algebra: accumulate, reduce, bound, apply once, clear.

M-model (lists of contributed parts per parameter, float64 bounding kernels from their definitions)
+ long-run M-inv (range invariants after every application).
"""

from __future__ import annotations

import itertools

import numpy as np
import torch

import inferno
from inferno import functional as inff
from inferno.neural import LinearDense, DeltaCurrent, Updater

BOUNDS = ["none", "power", "scaled_power", "multiplicative", "scaled_multiplicative", "sharp"]
REDUCTIONS = ["default", "sum", "mean", "amax", "custom"]


def _custom_red(x, dim):
    return 0.5 * torch.sum(x, dim) + 0.25 * torch.amax(x, dim)


def _red_fn(name):
    return {"sum": torch.sum, "mean": torch.mean, "amax": torch.amax, "custom": _custom_red}[name]


def _ref_reduce(name, parts):
    st = np.stack(parts, 0)
    if name in ("default", "sum"):
        return st.sum(0)
    if name == "mean":
        return st.mean(0)
    if name == "amax":
        return st.max(0)
    return 0.5 * st.sum(0) + 0.25 * st.max(0)


def _ref_upper(kind, x, p, mx, mn, power):
    if kind == "none":
        return p
    if kind == "power":
        return (mx - x) ** power * p
    if kind == "scaled_power":
        return ((mx - x) / (mx - mn)) ** power * p
    if kind == "multiplicative":
        return (mx - x) * p
    if kind == "scaled_multiplicative":
        return (mx - x) / (mx - mn) * p
    if kind == "sharp":
        return np.where(mx - x > 0, 1.0, 0.0) * p
    raise AssertionError(kind)


def _ref_lower(kind, x, n, mx, mn, power):
    if kind == "none":
        return n
    if kind == "power":
        return (x - mn) ** power * n
    if kind == "scaled_power":
        return ((x - mn) / (mx - mn)) ** power * n
    if kind == "multiplicative":
        return (x - mn) * n
    if kind == "scaled_multiplicative":
        return (x - mn) / (mx - mn) * n
    if kind == "sharp":
        return np.where(x - mn > 0, 1.0, 0.0) * n
    raise AssertionError(kind)


def generate(ctx):
    rng = ctx.rng
    th = ctx.tier == "thorough"
    for _ in range(5000 if th else 330):
        bound = rng.choice(BOUNDS)
        ops = []
        for _ in range(rng.randint(4, 18)):
            r = rng.random()
            if r < 0.55:
                ops.append({"op": "contribute", "param": rng.choice(["weight", "weight", "bias", "delay"]),
                            "form": rng.choice(["pair", "pair", "pos_only", "neg_only", "tensor"]),
                            "trainer": rng.randrange(3), "zero": rng.choice([None, None, None, "pos", "neg", "both"])})
            elif r < 0.75:
                ops.append({"op": "update", "clear": rng.random() < 0.8})
            elif r < 0.85:
                sel = rng.sample(["weight", "bias", "delay"], rng.randint(0, 2))     # an empty selection names nothing
                clear = rng.random() < 0.8
                if sel and clear and rng.random() < 0.2:
                    sel = sel + [sel[0]]       # a name given twice: applied once, the second application finds nothing
                ops.append({"op": "updatesome", "params": sel, "clear": clear})
            elif r < 0.9:
                ops.append({"op": "clear"})
            elif r < 0.94:
                ops.append({"op": "unbound", "which": rng.choice(["upper", "lower", "full"])})
            elif r < 0.97:
                ops.append({"op": "discard", "param": rng.choice(["weight", "bias", "delay"])})   # del updater.<param>: pending parts dropped
            else:
                ops.append({"op": "update_twice"})
        ops.append({"op": "update", "clear": True})
        ops.append({"op": "update_twice"})
        inside = rng.random() < 0.7
        mn_ = rng.choice([-0.5, 0.0, -2.0, round(rng.uniform(-3.0, 1.0), 3)])
        limits = [rng.choice([mn_ + 2.0, mn_ + 1.0, round(mn_ + rng.uniform(0.2, 4.0), 3)]), mn_]
        yield {"part": "algebra", "bound": bound, "limits": limits, "half": rng.choice(["both", "upper", "lower", "full"]),
               # a fractional power of a negative distance is NaN: outside the limits only integer powers are meaningful
               "power": rng.choice([1.0, 2.0, 0.5, 3.0, round(rng.uniform(0.3, 3.5), 3)]) if inside else rng.choice([1.0, 2.0, 3.0]), "reduction": rng.choice(REDUCTIONS),
               "red_via": rng.choice(["constructor", "accumulator"]), "dtype": rng.choice(["float32", "float64"]),
               "inside": inside, "seed": rng.randrange(1 << 30), "ops": ops,
               "shape": [rng.randint(1, 3), rng.randint(1, 4)], "one_sided": rng.choice([None, None, "upper", "lower"])}
    combos = list(itertools.product(["multiplicative", "scaled_multiplicative", "scaled_power", "sharp"],
                                    ["both", "full"], ["inside", "at_limits", "outside"]))
    for rep in range(3 if th else 1):
        for i, (kind, half, start) in enumerate(combos):
            if i % ctx.nshards != ctx.shard % len(combos):
                continue
            yield {"part": "longrun", "bound": kind, "half": half, "power": rng.choice([1.0, 2.0, 3.0]),
                   "steps": 5000 if th else 1500, "seed": rng.randrange(1 << 30),
                   "dtype": ["float32", "float64"][(i + rep) % 2], "start": start, "shape": [2, 3],
                   # limits that single precision does not represent, and single-precision parts for a double-precision parameter
                   "limits": rng.choice([[1.5, -0.5], [0.1, -0.1], [0.7, -0.3]]), "parts32": rng.random() < 0.6}


def _np(t):
    return t.detach().to(torch.float64).numpy().copy()


def _make_conn(shape, dtype):
    conn = LinearDense(shape[1], shape[0], 1.0, synapse=DeltaCurrent.partialconstructor(1.0), bias=True, delay=3.0)
    if dtype == "float64":
        conn.to(torch.float64)
    return conn


def _configure(ctx, conn, desc, spy):
    """build the updater and install bounds/reduction; returns (mx, mn) or raises Skip-able violation"""
    red = desc.get("reduction", "default")
    fn = None
    if red != "default":
        base = _red_fn(red)

        def fn(x, dim, _b=base):
            spy["calls"] += 1
            return _b(x, dim)

    if fn is not None and desc.get("red_via") == "constructor":
        upd = Updater(conn, "weight", "bias", "delay", reduction=fn)
        conn.updater = upd
    else:
        upd = conn.defaultupdater()
        conn.updater = upd
        if fn is not None:
            for nm in upd.names:
                getattr(upd, nm).reduction(fn)
    mx, mn = desc.get("limits", [1.5, -0.5])
    kind, half, power = desc["bound"], desc["half"], desc["power"]
    if kind != "none":
        for nm in upd.names:
            acc = getattr(upd, nm)
            if half == "full":
                f = getattr(inff, "bound_" + kind)
                kw = {"upper_power": power, "lower_power": power} if "power" in kind else {}
                one = desc.get("one_sided") if "scaled" not in kind else None
                # documented limit type float | None: a full bound may name one side only
                acc.fullbound(f, None if one == "lower" else mx, None if one == "upper" else mn, **kw)
            else:
                kwu = {}
                if "power" in kind:
                    kwu["power"] = power
                if "scaled" in kind:
                    kwu["range"] = mx - mn
                if half in ("both", "upper"):
                    acc.upperbound(getattr(inff, f"bound_upper_{kind}"), mx, **kwu)
                if half in ("both", "lower"):
                    acc.lowerbound(getattr(inff, f"bound_lower_{kind}"), mn, **kwu)
    return upd, mx, mn


def _expected(desc, x, pos_parts, neg_parts, mx, mn):
    red = desc.get("reduction", "default")
    kind, half, power = desc["bound"], desc["half"], desc["power"]
    pos = _ref_reduce(red, pos_parts) if pos_parts else None
    neg = _ref_reduce(red, neg_parts) if neg_parts else None
    if pos is None and neg is None:
        return x
    ku = kind if (kind != "none" and half in ("both", "upper", "full")) else "none"
    kl = kind if (kind != "none" and half in ("both", "lower", "full")) else "none"
    if half == "full" and desc.get("one_sided") and "scaled" not in kind:
        if desc["one_sided"] == "lower":
            ku = "none"
        else:
            kl = "none"
    out = x.copy()
    if pos is not None:
        out = out + _ref_upper(ku, x, pos, mx, mn, power)
    if neg is not None:
        out = out - _ref_lower(kl, x, neg, mx, mn, power)
    return out


def run_case(ctx, desc):
    if ctx.counters.get("sampled." + desc["part"], 0) == 0:
        ctx.count("sampled." + desc["part"])
        ctx.sample(desc)
    if desc["part"] == "algebra":
        _algebra(ctx, desc)
    else:
        _longrun(ctx, desc)


def _algebra(ctx, desc):
    g = torch.Generator().manual_seed(desc["seed"])
    dd = dict(desc)      # the bound configuration in force (changes when a bound is removed mid-run)
    shape = tuple(desc["shape"])
    tdt = torch.float64 if desc["dtype"] == "float64" else torch.float32
    spy = {"calls": 0}
    tag = f"{desc['bound']}.{desc['half']}"
    if desc["half"] == "full" and desc.get("one_sided") and "scaled" not in desc["bound"] and desc["bound"] != "none":
        tag += "." + desc["one_sided"] + "_only"
        ctx.count("one_sided_full_bound_cases")
    try:
        conn = _make_conn(shape, desc["dtype"])
        upd, mx, mn = _configure(ctx, conn, desc, spy)
    except Exception as e:  # noqa: BLE001
        return ctx.violation(ctx.exc_signature(e, f"construct.reduction_{desc['red_via']}" if desc["reduction"] != "default" else "construct"),
                             f"building the updater raised {type(e).__name__}: {str(e)[:140]}", desc)
    pshape = {"weight": shape, "bias": (shape[0],), "delay": shape}
    lo, hi = (mn + 0.05, mx - 0.05) if desc["inside"] else (mn - 1.0, mx + 1.0)
    for nm in ("weight", "bias", "delay"):
        setattr(conn, nm, (torch.rand(pshape[nm], generator=g, dtype=torch.float64) * (hi - lo) + lo).to(tdt))
    model = {nm: {"pos": [], "neg": []} for nm in pshape}
    calls_at_clear = {nm: 0 for nm in pshape}
    rtol, atol = (1e-11, 1e-12) if tdt == torch.float64 else (2e-5, 2e-6)

    def rnd(shp):
        return torch.rand(shp, generator=g, dtype=torch.float64).to(tdt) * 0.9

    def check_params(expected, touched, rdesc, what, scale=None):
        for nm in pshape:
            got = _np(getattr(conn, nm))
            if nm in touched:
                # float32: rounding is relative to the largest term of old + U(pos) - L(neg), not to the (possibly cancelled) result
                extra = 0.0 if (tdt == torch.float64 or scale is None) else 1e-5 * scale.get(nm, 0.0)
                if not np.allclose(got, expected[nm], rtol=rtol, atol=atol + extra, equal_nan=True):
                    ctx.violation(f"algebra.{what}.{tag}.value", f"{nm} after {what}: max err {np.abs(got - expected[nm]).max():.3g}",
                                  rdesc, {"param": nm, "got": got.tolist(), "expected": expected[nm].tolist()})
                    return False
            elif not np.array_equal(got, expected[nm], equal_nan=True):
                ctx.violation(f"algebra.{what}.untouched_parameter_changed", f"{nm} changed although nothing was applied to it", rdesc)
                return False
        return True

    for oi, op in enumerate(desc["ops"]):
        rdesc = {**desc, "ops": desc["ops"][: oi + 1]}
        cur = {nm: _np(getattr(conn, nm)) for nm in pshape}
        k = op["op"]
        ctx.case(f"algebra/{k}/{tag}/{desc['reduction']}-{desc['red_via']}/{desc['dtype']}/"
                 f"{'in' if desc['inside'] else 'out'}/{op.get('form', '')}",
                 nontrivial=True)
        try:
            if k == "contribute":
                nm, form = op["param"], op["form"]
                p, n = rnd(pshape[nm]), rnd(pshape[nm])
                if op.get("zero") in ("pos", "both"):
                    p = torch.zeros_like(p)      # a trainer step without pairs contributes an all-zero part: still a part
                if op.get("zero") in ("neg", "both"):
                    n = torch.zeros_like(n)
                if op.get("zero"):
                    ctx.count("all_zero_parts_contributed")
                if form == "pair":
                    setattr(upd, nm, (p, n))
                    model[nm]["pos"].append(_np(p)); model[nm]["neg"].append(_np(n))
                elif form == "pos_only":
                    setattr(upd, nm, (p, None))
                    model[nm]["pos"].append(_np(p))
                elif form == "neg_only":
                    setattr(upd, nm, (None, n))
                    model[nm]["neg"].append(_np(n))
                else:
                    setattr(upd, nm, p)
                    model[nm]["pos"].append(_np(p))
                ctx.count("contributions")
            elif k == "unbound":
                # documented: removing a half bound leaves the other half in force; it (or fullbound(None)) removes a full bound
                for nm in upd.names:
                    acc = getattr(upd, nm)
                    {"upper": acc.upperbound, "lower": acc.lowerbound, "full": acc.fullbound}[op["which"]](None)
                h = dd["half"]
                if op["which"] == "full" or h == "full":
                    dd["half"] = "none"
                elif op["which"] == "upper":
                    dd["half"] = {"both": "lower", "upper": "none"}.get(h, h)
                else:
                    dd["half"] = {"both": "upper", "lower": "none"}.get(h, h)
                ctx.count("bound_removals")
            elif k in ("update", "updatesome", "update_twice"):
                names = list(pshape) if k != "updatesome" else op["params"]
                exp = dict(cur)
                scale = {}
                for nm in names:
                    exp[nm] = _expected(dd, cur[nm], model[nm]["pos"], model[nm]["neg"], mx, mn)
                    up = _expected(dd, cur[nm], model[nm]["pos"], [], mx, mn) - cur[nm]
                    lo = cur[nm] - _expected(dd, cur[nm], [], model[nm]["neg"], mx, mn)
                    with np.errstate(all="ignore"):
                        scale[nm] = float(np.nanmax(np.abs(cur[nm]) + np.abs(up) + np.abs(lo)))
                # outside the kernels' domain (fractional power of a negative distance, overflow): no oracle
                frac = "power" in desc["bound"] and float(desc["power"]) != int(desc["power"])
                undefined = any((frac and ((cur[nm] > mx).any() or (cur[nm] < mn).any()))
                                or not np.isfinite(exp[nm]).all() or np.abs(exp[nm]).max() > 1e12 for nm in names)
                if undefined:
                    ctx.count("left_kernel_domain")
                    return
                # order independence: apply the same parts in a permuted order to a twin and compare
                if k == "updatesome":
                    conn.updatesome(*names, clear=op["clear"])
                elif k == "update":
                    conn.update(clear=op["clear"])
                else:
                    conn.update()
                ctx.count("applications")
                if not check_params(exp, set(names), rdesc, k, scale):
                    return
                nonempty = [nm for nm in names if model[nm]["pos"] or model[nm]["neg"]]
                if desc["reduction"] != "default" and nonempty:
                    ctx.count("custom_reduction_applications")
                    # the reduced value is cached inside the accumulator: require a call since these parts' clear
                    if spy["calls"] <= min(calls_at_clear[nm] for nm in nonempty):
                        return ctx.violation(f"algebra.custom_reduction_not_used.{desc['red_via']}",
                                             "the reduction configured on the updater was not the one called", rdesc)
                cleared = True if k == "update_twice" else op["clear"]
                if cleared:
                    for nm in names:
                        model[nm] = {"pos": [], "neg": []}
                        calls_at_clear[nm] = spy["calls"]
                if k == "update_twice":
                    after = {nm: _np(getattr(conn, nm)) for nm in pshape}
                    conn.update()
                    ctx.count("second_applications")
                    for nm in pshape:
                        if not np.array_equal(after[nm], _np(getattr(conn, nm)), equal_nan=True):
                            return ctx.violation("algebra.second_application_after_clear_changes_parameter",
                                                 f"{nm} changed on a second update() after the default clear", rdesc)
            elif k == "discard":
                nm = op["param"]
                if nm in pshape:
                    delattr(upd, nm)
                    model[nm] = {"pos": [], "neg": []}
                    ctx.count("discarded_pending_updates")
                    if upd.parent is not conn:
                        return ctx.violation("algebra.updater_parent", "updater.parent is not the connection it was built for", rdesc)
                    if not check_params(cur, set(), rdesc, "discard"):
                        return
            elif k == "clear":
                conn.clear()
                model = {nm: {"pos": [], "neg": []} for nm in pshape}
                calls_at_clear = {nm: spy["calls"] for nm in pshape}
                if not check_params(cur, set(), rdesc, "clear"):
                    return
        except Exception as e:  # noqa: BLE001
            return ctx.violation(ctx.exc_signature(e, f"{k}.{tag}"), f"{k} raised {type(e).__name__}: {str(e)[:140]}", rdesc)
        # accumulator views agree with the model
        for nm in pshape:
            acc = getattr(upd, nm)
            for side in ("pos", "neg"):
                got = getattr(acc, side)
                parts = model[nm][side]
                if (got is None) != (not parts):
                    return ctx.violation(f"algebra.accumulator.{side}.presence", f"{nm}.{side} is {'None' if got is None else 'set'} with {len(parts)} parts", rdesc)
                if parts and not np.allclose(_np(got), _ref_reduce(desc["reduction"], parts), rtol=rtol, atol=atol):
                    return ctx.violation(f"algebra.accumulator.{side}.reduced_value", f"{nm}.{side} != reduce(parts)", rdesc)
    # permutation independence on a twin: same parts, shuffled contribution order
    _permutation(ctx, desc, g, pshape, rtol, atol)


def _permutation(ctx, desc, g, pshape, rtol, atol):
    tdt = torch.float64 if desc["dtype"] == "float64" else torch.float32
    shape = tuple(desc["shape"])
    parts = [(torch.rand(shape, generator=g, dtype=torch.float64).to(tdt) * 0.9,
              torch.rand(shape, generator=g, dtype=torch.float64).to(tdt) * 0.9) for _ in range(4)]
    w0 = (torch.rand(shape, generator=g, dtype=torch.float64) * 1.6 - 0.4).to(tdt)
    outs = []
    for perm in ([0, 1, 2, 3], [3, 1, 0, 2], [2, 3, 1, 0]):
        spy = {"calls": 0}
        try:
            conn = _make_conn(shape, desc["dtype"])
            upd, mx, mn = _configure(ctx, conn, desc, spy)
        except Exception:  # noqa: BLE001  already reported by the caller
            return
        conn.weight = w0.clone()
        # pos and neg parts interleaved differently too
        for i in perm:
            upd.weight = (parts[i][0], None)
        for i in reversed(perm):
            upd.weight = (None, parts[i][1])
        try:
            conn.update()
        except Exception as e:  # noqa: BLE001
            return ctx.violation(ctx.exc_signature(e, f"update.{desc['bound']}.{desc['half']}"), f"update raised {type(e).__name__}: {str(e)[:140]}", desc)
        outs.append(_np(conn.weight))
    ctx.count("permutation_checks")
    for o in outs[1:]:
        if not np.allclose(o, outs[0], rtol=max(rtol, 1e-12) * 10, atol=atol * 10, equal_nan=True):
            return ctx.violation("algebra.order_dependence", "result depends on the order parts were contributed", desc,
                                 {"max_diff": float(np.abs(o - outs[0]).max())})


def _longrun(ctx, desc):
    g = torch.Generator().manual_seed(desc["seed"])
    shape = tuple(desc["shape"])
    tdt = torch.float64 if desc["dtype"] == "float64" else torch.float32
    spy = {"calls": 0}
    d2 = {**desc, "reduction": "default"}
    try:
        conn = _make_conn(shape, desc["dtype"])
        upd, mx, mn = _configure(ctx, conn, d2, spy)
    except Exception as e:  # noqa: BLE001
        return ctx.violation(ctx.exc_signature(e, "construct"), f"{type(e).__name__}: {str(e)[:140]}", desc)
    kind = desc["bound"]
    sharp = kind == "sharp"
    if desc["start"] == "inside" or (not sharp):
        w = torch.rand(shape, generator=g, dtype=torch.float64) * (mx - mn) + mn
        if desc["start"] == "at_limits":
            w[0, 0], w[0, 1] = mx, mn
    else:
        w = torch.rand(shape, generator=g, dtype=torch.float64) * (mx - mn + 2) + mn - 1
        if desc["start"] == "at_limits":
            w[0, 0], w[0, 1] = mx, mn
    conn.weight = w.to(tdt)
    ctx.case(f"longrun/{kind}/{desc['half']}/p{desc['power']}/{desc['dtype']}/{desc['start']}")
    # reduced magnitudes at most 1 (unscaled) or at most the range (scaled) - the stated limit
    cap = (mx - mn) if "scaled" in kind else 1.0
    if sharp:
        cap = 0.3
    slack = 0.0 if tdt == torch.float64 else 4e-7 * max(abs(mx), abs(mn))
    slack = max(slack, 1e-15)
    pdt = torch.float32 if desc.get("parts32") else tdt
    if pdt != tdt:
        ctx.count("longruns_with_single_precision_parts_on_a_double_precision_parameter")
        cap = cap * (1 - 3e-7)      # the stated magnitude limit holds for the parts as handed over (after their rounding to float32)
    for t in range(desc["steps"]):
        if sharp and desc["start"] == "at_limits" and t % 25 == 0:
            # put two elements exactly on the limits again (a parameter that has just reached its limit)
            w = conn.weight.detach().clone()
            w[0, 0], w[0, 1] = mx, mn
            conn.weight = w
        before = _np(conn.weight)
        nparts = 1 + (t % 3)
        # several trainers; magnitudes chosen so the REDUCED (summed) magnitude stays within the cap
        for _ in range(nparts):
            p = torch.rand(shape, generator=g, dtype=torch.float64) * cap / nparts
            n = torch.rand(shape, generator=g, dtype=torch.float64) * cap / nparts
            if t % 7 == 0:
                p = torch.full(shape, cap / nparts, dtype=torch.float64)   # the extreme allowed magnitude
            if t % 11 == 0:
                n = torch.full(shape, cap / nparts, dtype=torch.float64)
            upd.weight = (p.to(pdt), n.to(pdt))
        try:
            conn.update()
        except Exception as e:  # noqa: BLE001
            return ctx.violation(ctx.exc_signature(e, f"longrun.update.{kind}.{desc['half']}"), f"{type(e).__name__}: {str(e)[:140]}", desc)
        after = _np(conn.weight)
        ctx.count("longrun_applications")
        if np.isnan(after).any():
            return ctx.violation(f"longrun.{kind}.nan", f"NaN after {t + 1} updates", desc)
        if not sharp:
            if (after > mx + slack * 4).any() or (after < mn - slack * 4).any():
                return ctx.violation(f"longrun.{kind}.{desc['half']}.left_range",
                                     f"parameter left [{mn},{mx}] after {t + 1} updates: min {after.min()} max {after.max()}", desc,
                                     {"step": t})
        else:
            above, below = before >= mx, before <= mn
            if (after[above] > before[above] + slack).any() or (after[below] < before[below] - slack).any():
                return ctx.violation(f"longrun.sharp.{desc['half']}.moved_further_beyond_limit",
                                     f"a parameter at/over a limit moved further out at update {t + 1}", desc, {"step": t})
