"""C09 - every trainer's LTP/LTD split is non-negative and nets to the signed rule.

M-inv at the accumulator (class-level wrapper on the Accumulator.pos / .neg setters records every part a
trainer hands over) + the C08 / C18 spike-time oracles for the signed rule + spy half-bounding functions
for the routing (potentiation -> upper bound, depression -> lower bound).
"""

from __future__ import annotations

import numpy as np
import torch

from inferno import learn, neural
from inferno.neural import Accumulator

from rv import factory as fac
from rv import trainers as tr
from rv.monitors import c08

ALL = tr.TRAINERS
_REC = {"installed": False, "parts": [], "attribute": False, "who": []}


def _who():
    """(trainer class, parameter) handing a part over, found on the call stack (suite workload only)"""
    import sys

    f = sys._getframe(2)
    trainer, param = "?", "?"
    for _ in range(8):
        if f is None:
            break
        if f.f_code.co_name == "_setacc_":
            param = f.f_locals.get("attr", "?")
        slf = f.f_locals.get("self")
        if slf is not None and hasattr(type(slf), "register_cell"):
            trainer = type(slf).__name__
            break
        f = f.f_back
    return trainer, param


def _install():
    if _REC["installed"]:
        return
    for side in ("pos", "neg"):
        prop = getattr(Accumulator, side)

        def fset(self, value, _orig=prop.fset, _side=side):
            if value is not None:
                _REC["parts"].append((_side, value.detach().clone()))
                if _REC.get("attribute"):
                    _REC["who"].append(_who())
            return _orig(self, value)

        setattr(Accumulator, side, property(prop.fget, fset, prop.fdel, prop.__doc__))
    _REC["installed"] = True


def generate(ctx):
    rng = ctx.rng
    th = ctx.tier == "thorough"
    i = 0
    for rep in range(14 if th else 3):
        for name in ALL:
            for sg in range(4):
                if (i := i + 1) % ctx.nshards != ctx.shard:
                    continue
                delay = rng.choice([None, 2]) if name in tr.HAS_DELAYED_FLAG else (2 if name in tr.NEEDS_DELAY else None)
                d = {"part": "family", "trainer": name, "conn": rng.choice(["dense", "direct", "lateral", "conv"]), "dt": rng.choice([1.0, 0.5]),
                     "B": rng.randint(1, 3), "T": rng.randint(6, 10), "signs": sg, "trace_mode": rng.choice(["cumulative", "nearest"]),
                     "delay": delay, "delayed": bool(delay) and name in tr.HAS_DELAYED_FLAG and rng.random() < 0.5,
                     "reduction": rng.choice(["sum", "mean", "amax"]), "reward": rng.choice(["scalar+", "scalar-", "tensor"]),
                     "scale": rng.choice([1.0, 1.0, 0.5, -0.5, -2.0]), "p": rng.choice([0.4, 0.7]), "seed": rng.randrange(1 << 30), "spy_bounds": rng.random() < 0.5,
                     "per_cell": rng.random() < 0.5, "lr_a3": rng.choice([0.3, -0.3, 1.5, -1.5]), "lr_b3": rng.choice([0.2, -0.2, 1.2, -1.2]),
                     "tensor_kwargs": rng.choice([[], ["post_learning_rate"], ["post_time_constant", "pre_learning_rate"]])}
                if name in tr.THREE_FACTOR:
                    # every reward form meets every sign of the scale for every trainer and sign mode, not left to the draw
                    d["reward"] = ["tensor", "scalar+", "scalar-", "tensor"][(sg + rep) % 4]
                    d["scale"] = [1.0, -0.5, 0.5, -2.0][(sg + 2 * rep) % 4]
                if d["reward"] == "tensor" and name in tr.THREE_FACTOR:
                    d["reduction"] = "sum"
                if "Kernel" in name and rng.random() < 0.5:
                    d["kernel"] = "osc"       # a user kernel whose sign changes with the time difference
                d["unbound_at"] = rng.choice([None, 2, 3])
                d["unbound_side"] = rng.choice(["u", "l"])
                yield d
    for d in c08.generate(ctx):
        if d.get("part") == "multicell":
            yield {**d, "part": "multicell"}
    for rep in range(40 if th else 6):
        for param in ("weight", "bias", "delay"):
            for lam in (0.5, -0.5):
                if (i := i + 1) % ctx.nshards != ctx.shard:
                    continue
                yield {"part": "homeostasis", "param": param, "plasticity": lam, "target": rng.choice([0.2, 0.5, 0.8]),
                       "rate": rng.choice([0.1, 0.3, 0.6, 0.9]), "conn": rng.choice(["dense", "direct", "conv"]),
                       "B": rng.randint(1, 3), "T": rng.randint(4, 10), "reduction": rng.choice(["sum", "mean"]),
                       "seed": rng.randrange(1 << 30)}


def run_case(ctx, desc):
    _install()
    if ctx.counters.get("sampled." + desc["part"], 0) == 0:
        ctx.count("sampled." + desc["part"])
        ctx.sample(desc)
    if desc["part"] == "family":
        return _family(ctx, desc)
    if desc["part"] == "multicell":
        _REC["parts"][:] = []
        ok = c08.run_multicell(ctx, desc, "C09")
        for side, v in _REC["parts"]:
            ctx.count("parts_checked")
            if bool(torch.isnan(v).any()) or bool((v < 0).any()):
                return ctx.violation(f"{desc['trainer']}.multicell.{'potentiating' if side == 'pos' else 'depressing'}_part_negative",
                                     "a negative-valued part was handed over in a two-cell trainer", desc)
        _REC["parts"][:] = []
        return ok
    return _homeostasis(ctx, desc)


def _family(ctx, desc):
    name = desc["trainer"]
    spies = {"u": [], "l": []}
    state = {"installed_on": None}

    def extra(ctx, rdesc, h, gp, gn, epos, eneg):
        # (1) non-negativity of every part handed to the updater during this step
        parts, _REC["parts"][:] = list(_REC["parts"]), []
        if not parts and (epos.any() or eneg.any()):
            ctx.violation(f"{name}.no_parts_recorded", "the trainer handed nothing to the updater although the rule is active", rdesc)
            return False
        for side, v in parts:
            ctx.count("parts_checked")
            if bool(torch.isnan(v).any()) or bool((v < 0).any()):
                ctx.violation(f"{name}.{'potentiating' if side == 'pos' else 'depressing'}_part_negative.signs{desc['signs']}",
                              f"a part handed over as {side} has negative (or NaN) elements: min {float(v.min())}", rdesc)
                return False
        return True

    # run the history through the C08 driver (signed-rule oracle) with the non-negativity check plugged in
    g = torch.Generator().manual_seed(desc["seed"])
    probe = tr.Harness("STDP", desc["conn"], dt=desc["dt"], B=desc["B"], delay_steps=None, seed=0)
    B, T = desc["B"], desc["T"]
    ish, osh = (B,) + tuple(probe.conn.inshape), (B,) + tuple(probe.conn.outshape)
    pre = [torch.rand(ish, generator=g) < desc["p"] for _ in range(T)]
    post = [torch.rand(osh, generator=g) < desc["p"] for _ in range(T)]
    rewards = None
    if name in tr.THREE_FACTOR:
        if desc["reward"] == "tensor":
            rewards = [torch.randn(B, generator=g, dtype=torch.float64) for _ in range(T)]
        else:
            sgn = 1.0 if desc["reward"] == "scalar+" else -1.0
            rewards = [sgn * float(torch.rand(1, generator=g)) for _ in range(T)]
    _REC["parts"][:] = []
    if not desc["spy_bounds"]:
        return c08.run_trainer_history(ctx, desc, "C09", pre, post, rewards, extra)
    return _routing(ctx, desc, pre, post, rewards)


def _routing(ctx, desc, pre, post, rewards):
    """spy half-bounding functions must receive exactly reduce(potentiating parts) / reduce(depressing parts)"""
    name = desc["trainer"]
    a, b = c08.SIGNS[desc["signs"]]
    hyper = {"lr_a": a, "lr_b": b, "trace_mode": desc["trace_mode"], "delayed": desc["delayed"], "lr_a3": desc["lr_a3"],
             "lr_b3": desc["lr_b3"], "tensor_kwargs": desc["tensor_kwargs"], "kernel": desc.get("kernel")}
    red = desc["reduction"]
    try:
        h = tr.Harness(name, desc["conn"], dt=desc["dt"], B=desc["B"], delay_steps=desc["delay"], seed=desc["seed"],
                       batch_reduction=c08.RED[red], hyper=hyper, dtype=torch.float64, max_delay_steps=(3 if desc["delay"] else None),
                       per_cell=desc["per_cell"])
    except Exception as e:  # noqa: BLE001
        return ctx.violation(ctx.exc_signature(e, f"construct.{name}"), f"{type(e).__name__}: {str(e)[:160]}", desc)
    orc = tr.Oracle(name, desc["conn"], h.conn, h.dt, hyper, red)
    seen = {"u": None, "l": None}

    def spy_u(param, update, limit, **kw):
        seen["u"] = update.detach().clone()
        return update

    def spy_l(param, update, limit, **kw):
        seen["l"] = update.detach().clone()
        return update

    acc = getattr(h.conn.updater, h.param)
    acc.upperbound(spy_u, 10.0)
    acc.lowerbound(spy_l, -10.0)
    stray, other_conn = [], None
    if desc["seed"] % 2 == 0:
        # another accumulator (another connection's updater) is half-bounded afterwards, with its own function on one side only:
        # bound functions belong to the accumulator they were configured on
        other_conn = fac.make_connection("dense", h.dt, syn="delta", B=1, nin=2, nout=2)
        other_conn.updater = other_conn.defaultupdater()

        def other_spy(param, update, limit, **kw):
            stray.append(tuple(update.shape))
            return update * 0

        oacc = other_conn.updater.weight
        (oacc.upperbound if desc["seed"] % 4 == 0 else oacc.lowerbound)(other_spy, 0.5)
        ctx.count("routing_cases_with_another_accumulator_half_bound_afterwards")
    unb = {"u": False, "l": False}
    for t in range(desc["T"]):
        rdesc = {**desc, "T": t + 1}
        if desc.get("unbound_at") == t:
            # one half bound is taken away again (documented: passing None): that side is applied unscaled from here on, the
            # other side still goes through its own function
            side = desc.get("unbound_side", "u")
            (acc.upperbound if side == "u" else acc.lowerbound)(None)
            unb[side] = True
            ctx.count("routing_cases_with_a_half_bound_removed")
        delays = None if h.conn.delayedby is None else h.conn.delay.detach().clone()
        reward = rewards[t] if rewards else None
        seen["u"] = seen["l"] = None
        _REC["parts"][:] = []
        try:
            pos, neg, dparam = h.step_apply(pre[t], post[t], reward, desc.get("scale", 1.0))
        except Exception as e:  # noqa: BLE001
            return ctx.violation(ctx.exc_signature(e, f"step.{name}.{desc['conn']}"), f"{type(e).__name__}: {str(e)[:200]}", rdesc)
        epos, eneg = orc.step(pre[t], post[t], delays, reward, desc.get("scale", 1.0))
        if stray:
            return ctx.violation(f"{name}.routing.part_reached_another_accumulators_bound_function",
                                 f"step {t}: a bound function configured on another connection's accumulator received a part of shape {stray[0]}", rdesc)
        ctx.case(f"routing/{name}/{desc['conn']}/signs{desc['signs']}/{red}/{desc['reward'] if name in tr.THREE_FACTOR else '-'}")
        ctx.count("routing_steps_checked")
        if name in tr.THREE_FACTOR and desc.get("scale", 1.0) < 0:
            ctx.count("three_factor_steps_with_negative_scale." + ("tensor_signal" if desc["reward"] == "tensor" else "scalar_signal"))
        if (unb["u"] or unb["l"]) and not np.allclose(_np64(dparam), (epos - eneg) * (_lat_mask(h) if desc["conn"] == "lateral" else 1.0),
                                                     rtol=1e-8, atol=1e-10):
            return ctx.violation(f"{name}.routing.applied_change_after_removing_a_half_bound",
                                 f"step {t}: with one half bound removed (the spies return their input) the applied change is not pos - neg", rdesc)
        for side, got, exp in (("u", seen["u"], epos), ("l", seen["l"], eneg)):
            label = "upper_bound_function" if side == "u" else "lower_bound_function"
            if unb[side]:
                if got is not None:
                    return ctx.violation(f"{name}.routing.removed_{label}_still_called", f"step {t}: the {label} was removed but received a part", rdesc)
                continue
            if got is None:
                if exp.any():
                    return ctx.violation(f"{name}.routing.{label}_not_called", f"step {t}: expected parts never reached the {label}", rdesc)
                continue
            if not np.allclose(got.to(torch.float64).numpy(), exp, rtol=1e-8, atol=1e-10):
                return ctx.violation(f"{name}.routing.{label}_received_wrong_part.signs{desc['signs']}",
                                     f"step {t}: the {label} did not receive reduce({'potentiating' if side == 'u' else 'depressing'} parts)", rdesc)
        for side, v in _REC["parts"]:
            ctx.count("parts_checked")
            if bool(torch.isnan(v).any()) or bool((v < 0).any()):
                return ctx.violation(f"{name}.{'potentiating' if side == 'pos' else 'depressing'}_part_negative.signs{desc['signs']}",
                                     f"a part handed over as {side} has negative elements", rdesc)


def _np64(t):
    return t.detach().to(torch.float64).numpy()


def _lat_mask(h):
    return 1.0 - np.eye(h.conn.weight.shape[0])


def _homeostasis(ctx, desc):
    from inferno.extra import ExactNeuron
    from rv import factory as fac

    param, lam, target = desc["param"], desc["plasticity"], desc["target"]
    B = desc["B"]
    g = torch.Generator().manual_seed(desc["seed"])
    conn = fac.make_connection(desc["conn"], 1.0, syn="delta", B=B, delay=2.0, bias=True, nin=3, nout=2, conv=(4, 4, 1, 2, 2))
    fac.randomize(conn, g, delay_steps=2, dt=1.0)
    neuron = ExactNeuron(conn.outshape, 1.0, rest_v=-60.0, thresh_v=-50.0, batch_size=B)
    layer = neural.Serial(conn, neuron)
    conn.updater = conn.defaultupdater()
    trn = learn.LinearHomeostasis(lam, target, param, batch_reduction=c08.RED[desc["reduction"]])
    try:
        trn.register_cell("c", layer.cell)
    except Exception as e:  # noqa: BLE001
        return ctx.violation(ctx.exc_signature(e, f"homeostasis.register.{param}"), f"{type(e).__name__}: {str(e)[:160]}", desc)
    posts = []
    for t in range(desc["T"]):
        rdesc = {**desc, "T": t + 1}
        pre = torch.rand((B,) + tuple(conn.inshape), generator=g) < 0.5
        post = torch.rand((B,) + tuple(conn.outshape), generator=g) < desc["rate"]
        posts.append(post.double())
        _REC["parts"][:] = []
        try:
            layer(pre, neuron_kwargs={"override": post})
            trn()
        except Exception as e:  # noqa: BLE001
            return ctx.violation(ctx.exc_signature(e, f"homeostasis.step.{param}"), f"{type(e).__name__}: {str(e)[:160]}", rdesc)
        acc = getattr(conn.updater, param)
        p, n = acc.pos, acc.neg
        before = getattr(conn, param).detach().clone()
        conn.update()
        applied = (getattr(conn, param).detach() - before).double()
        rate = torch.stack(posts, 0).mean(0)                       # observed firing rate per sample / neuron
        err = (target - rate) / target                             # > 0: fires too little
        above = bool((rate > target).any())
        ctx.case(f"homeostasis/{param}/lam{'+' if lam > 0 else '-'}/{desc['conn']}/{'above' if above else 'below'}/{desc['reduction']}/B{B}")
        ctx.count("homeostasis_steps_checked")
        for side, v in _REC["parts"]:
            ctx.count("parts_checked")
            if bool((v < 0).any()) or bool(torch.isnan(v).any()):
                ctx.violation(f"homeostasis.{param}.{'potentiating' if side == 'pos' else 'depressing'}_part_negative",
                              f"LinearHomeostasis hands over a negative-valued {side} part for '{param}' when the rate is "
                              f"{'above' if side == 'neg' else 'below'} target", rdesc, {"min": float(v.min())})
                break
        # direction: the parameter must move so that the rate approaches the target (per output neuron, batch-reduced)
        k = err.reshape(B, -1)
        kred = k.sum(0) if desc["reduction"] == "sum" else k.mean(0)    # sign per output neuron (reduction of signed term)
        want = torch.sign(kred * lam) * (-1.0 if param == "delay" else 1.0)
        if desc["conn"] == "conv":
            continue  # receptive averaging over positions: direction checked for the linear cells only
        if param == "bias":
            got = torch.sign(applied.reshape(-1))
        elif desc["conn"] == "direct":
            got = torch.sign(applied.reshape(-1))
        else:
            got = torch.sign(applied.sum(-1).reshape(-1)) if applied.ndim > 1 else torch.sign(applied.reshape(-1))
        # only judge neurons whose every sample is on the same side of the target (the reduced sign is then unambiguous)
        same_side = ((k > 0).all(0) | (k < 0).all(0))
        bad = same_side & (want != 0) & (got != want)
        if bool(bad.any()):
            side = "above" if bool((kred[bad] * (1.0) < 0).any()) else "below"
            ctx.violation(f"homeostasis.{param}.net_update_wrong_direction",
                          f"step {t}: '{param}' moved away from what brings the rate toward its target "
                          f"(plasticity {lam}, rate {side} target)", rdesc,
                          {"want": want.tolist(), "got": got.tolist()})


def run_suite(ctx):
    """the repository's trainer tests with the Accumulator setter invariant switched on"""
    from rv import suite

    _install()
    _REC["parts"][:] = []
    _REC["who"][:] = []
    _REC["attribute"] = True
    suite.run_tests(ctx, ["learn"])
    _REC["attribute"] = False
    bad = set()
    for (side, v), (trainer, param) in zip(_REC["parts"], _REC["who"]):
        if bool(torch.isnan(v).any()) or bool((v < 0).any()):
            bad.add((trainer, param, side))
    ctx.counters["suite_parts_checked"] = len(_REC["parts"])
    ctx.case("suite/test.learn")
    ctx.case("suite/invariant=accumulator_parts_nonnegative")
    _REC["parts"][:] = []
    for trainer, param, side in sorted(bad):
        part = "potentiating" if side == "pos" else "depressing"
        mech = (f"homeostasis.{param}.{part}_part_negative" if trainer == "LinearHomeostasis"
                else f"suite.{trainer}.{param}.{part}_part_negative")
        ctx.violation(mech, f"{trainer} handed a negative-valued {part} part for '{param}' to an Accumulator while the "
                      "repository's trainer tests ran", {"kind": "suite"})
