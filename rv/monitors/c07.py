"""C07 - spike traces and fold reducers equal their closed forms over any event history.

M-model: expected values are computed in float64 from the recorded list of observations only
(closed-form sums over event times); the real reducers run in float64 (module.to(float64)).
"""

from __future__ import annotations

import math

import numpy as np
import torch

import inferno
from inferno.observe import (
    NearestTraceReducer, CumulativeTraceReducer, ScaledNearestTraceReducer, ScaledCumulativeTraceReducer,
    ConditionalNearestTraceReducer, ConditionalCumulativeTraceReducer, EventReducer, PassthroughReducer,
    EMAReducer, CAReducer,
)

KINDS = ["nearest", "cumulative", "scaled_nearest", "scaled_cumulative", "cond_nearest", "cond_cumulative",
         "event", "passthrough", "ema", "ca"]


def generate(ctx):
    rng = ctx.rng
    th = ctx.tier == "thorough"
    for i in range(5000 if th else 130):
        kind = KINDS[i % len(KINDS)] if i < 3 * len(KINDS) else rng.choice(KINDS)
        dt = rng.choice([1.0, 0.5, 1.3, round(rng.uniform(0.1, 2.5), 3)])
        durk = rng.choice([0.0, 3.0, 2.5, 1.0, 6.0])
        T = rng.randint(12, 40)
        ops = []
        for t in range(T):
            r = rng.random()
            if r < 0.06:
                ops.append({"op": "clear", "keepshape": rng.random() < 0.5})
            elif r < 0.09 and durk == 0.0:
                ops.append({"op": "set_dt", "dt": rng.choice([1.0, 0.5, 1.3, 0.25])})
            ops.append({"op": "step"})
            if rng.random() < 0.45:
                ops.append({"op": "view", "n": rng.randint(1, 3), "mode": rng.choice(["scalar", "tensor"])})
            if rng.random() < 0.2:
                ops.append({"op": "dump"})
        cont = rng.random() < 0.35      # off the menu: continuous draws of the real-valued hyper-parameters
        u = rng.uniform
        yield {"part": "reducer", "kind": kind, "dt": dt, "duration": durk * dt, "inclusive": rng.random() < 0.5,
               "inplace": rng.random() < 0.5, "tc": round(u(0.4, 50.0), 3) if cont else rng.choice([2.0, 5.0, 20.0, 0.7]),
               "amp": round(rng.choice([-1, 1]) * u(0.01, 3.0), 3) if cont else rng.choice([1.0, 0.5, -1.0, 2.5, -0.25]),   # documented: nonzero
               "scale": round(u(-2.0, 2.5), 3) if cont else rng.choice([1.0, -0.5, 0.0, 2.0]),
               "obs": rng.choice(["bool", "real"]), "obs_dtype": rng.choice([None, "bool", "int64", "float32"]), "caller_reuses_buffer": rng.random() < 0.4, "zero_contribution": rng.random() < 0.5,
               "tolerance": rng.choice([None, 0.1, 0.5, 0.25]), "target": rng.choice([1.0, 0.0, 2.5]),
               "initial": rng.choice(["inf", "zero", "nan"]), "alpha": round(u(0.0, 1.0), 4) if cont else rng.choice([0.0, 0.1, 0.5, 0.9, 1.0]),
               "p": rng.choice([0.1, 0.3, 0.6, 1.0, 0.0]), "shape": list(rng.choice([(3,), (2, 2), (1,), (2, 1, 2)])),
               "seed": rng.randrange(1 << 30), "ops": ops}
    for _ in range(1500 if th else 40):
        yield {"part": "functional", "dt": rng.choice([1.0, 0.5, 1.3]), "tc": rng.choice([2.0, 5.0, 20.0]),
               "amp": rng.choice([1.0, -0.5, 2.0]), "scale": rng.choice([1.0, -0.5, 2.0]), "target": rng.choice([1.0, 0.0]),
               "tolerance": rng.choice([None, 0.1, 0.5, 0.25]), "p": rng.choice([0.2, 0.5, 1.0]), "T": rng.randint(5, 30),
               "shape": [3], "seed": rng.randrange(1 << 30)}


def run_case(ctx, desc):
    if ctx.counters.get("sampled." + desc.get("kind", "fn"), 0) == 0 and len(ctx.samples) < 4:
        ctx.count("sampled." + desc.get("kind", "fn"))
        ctx.sample({**desc, "ops": desc.get("ops", [])[:8]})
    if desc["part"] == "reducer":
        _reducer(ctx, desc)
    else:
        _functional(ctx, desc)


# ------------------------------------------------------------------------------------------

def _gt_half(x):
    return x > 0.5


def _build(desc):
    k, dt = desc["kind"], desc["dt"]
    kw = {"duration": desc["duration"], "inclusive": desc["inclusive"], "inplace": desc["inplace"]}
    tc, amp, sc = desc["tc"], desc["amp"], desc["scale"]
    if k == "nearest":
        r = NearestTraceReducer(dt, tc, amp, desc["target"], desc["tolerance"], **kw)
    elif k == "cumulative":
        r = CumulativeTraceReducer(dt, tc, amp, desc["target"], desc["tolerance"], **kw)
    elif k == "scaled_nearest":
        r = ScaledNearestTraceReducer(dt, tc, amp, sc, _gt_half, **kw)
    elif k == "scaled_cumulative":
        r = ScaledCumulativeTraceReducer(dt, tc, amp, sc, _gt_half, **kw)
    elif k == "cond_nearest":
        r = ConditionalNearestTraceReducer(dt, tc, amp, sc, **kw)
    elif k == "cond_cumulative":
        r = ConditionalCumulativeTraceReducer(dt, tc, amp, sc, **kw)
    elif k == "event":
        r = EventReducer(dt, _gt_half, desc["initial"], **kw)
    elif k == "passthrough":
        r = PassthroughReducer(dt, **kw)
    elif k == "ema":
        r = EMAReducer(dt, desc["alpha"], **kw)
    else:
        r = CAReducer(dt, **kw)
    r.to(torch.float64)
    return r


class _Oracle:
    """closed forms over the recorded observation list (since the last clear)"""

    def __init__(self, desc):
        self.d = desc
        self.reset()

    def reset(self):
        self.obs = []     # per step: (obs array, cond array or None)
        self.times = []   # absolute time of each step
        self.vals = []    # expected value per step

    def _match(self, x, c):
        d = self.d
        k = d["kind"]
        if k in ("nearest", "cumulative"):
            if d["tolerance"] is None:
                return x == d["target"]
            return np.abs(x - d["target"]) <= d["tolerance"]
        if k in ("scaled_nearest", "scaled_cumulative", "event"):
            return x > 0.5
        return c

    def step(self, x, c, dt_now):
        d = self.d
        k = d["kind"]
        t_now = (self.times[-1] + dt_now) if self.times else 0.0
        self.obs.append((x, c))
        self.times.append(t_now)
        n = len(self.obs)
        tc, amp, sc = d["tc"], d["amp"], d["scale"]
        if k in ("nearest", "cumulative", "scaled_nearest", "scaled_cumulative", "cond_nearest", "cond_cumulative"):
            scaled = k not in ("nearest", "cumulative")
            cum = "cumulative" in k
            out = np.zeros_like(x, dtype=np.float64)
            last = np.full(x.shape, -1, dtype=np.int64)
            for f in range(n):
                xf, cf = self.obs[f]
                m = self._match(xf, cf)
                a = (amp + sc * xf) if scaled else np.full(x.shape, amp)
                contrib = a * np.exp(-(t_now - self.times[f]) / tc)
                if cum:
                    out = out + np.where(m, contrib, 0.0)
                else:
                    out = np.where(m, contrib, out)
            v = out
        elif k == "event":
            init = {"inf": math.inf, "zero": 0.0, "nan": math.nan}[d["initial"]]
            v = np.full(x.shape, init, dtype=np.float64) + (t_now - self.times[0])
            for f in range(n):
                m = self.obs[f][0] > 0.5
                v = np.where(m, t_now - self.times[f], v)
        elif k == "passthrough":
            v = x.astype(np.float64)
        elif k == "ema":
            al = d["alpha"]
            v = (1 - al) ** (n - 1) * self.obs[0][0]
            for j in range(1, n):
                v = v + al * (1 - al) ** (n - 1 - j) * self.obs[j][0]
        else:
            v = sum(o[0] for o in self.obs) / n
        self.vals.append(np.asarray(v, dtype=np.float64))
        return self.vals[-1]

    def interp(self, older, newer, elapsed, dt):
        k = self.d["kind"]
        if k in ("nearest", "cumulative", "scaled_nearest", "scaled_cumulative", "cond_nearest", "cond_cumulative"):
            return older * np.exp(-elapsed / self.d["tc"])
        if k == "event":
            return older + elapsed
        if k == "passthrough":
            return older
        return older + (newer - older) / dt * elapsed


def _np(t):
    return t.detach().to(torch.float64).numpy()


_LOOSE = [False]   # single-precision observations: the reducer's arithmetic is then single precision too


def _close(a, b, rtol=1e-9, atol=1e-10):
    if _LOOSE[0]:
        rtol, atol = 2e-5, 2e-6
    return np.allclose(a, b, rtol=rtol, atol=atol, equal_nan=True)


def _reducer(ctx, desc):
    _LOOSE[0] = bool(desc.get("obs_dtype")) and desc["obs"] == "bool" and desc["kind"] in ("event", "passthrough", "ema", "ca")
    g = np.random.default_rng(desc["seed"])
    shape = tuple(desc["shape"])
    kind = desc["kind"]
    try:
        r = _build(desc)
    except Exception as e:  # noqa: BLE001
        return ctx.violation(ctx.exc_signature(e, f"construct.{kind}"), f"{type(e).__name__}: {str(e)[:140]}", desc)
    orc = _Oracle(desc)
    dt = desc["dt"]
    fill = {"inf": math.inf, "zero": 0.0, "nan": math.nan}[desc["initial"]] if kind == "event" else 0.0
    cond_kind = kind.startswith("cond")

    def draw():
        if desc["obs"] == "bool" or kind in ("event",):
            x = (g.random(shape) < desc["p"]).astype(np.float64)
            if kind in ("nearest", "cumulative"):
                x = np.where(x > 0, desc["target"], desc["target"] + 1.0)
        else:
            if kind in ("nearest", "cumulative"):
                tol = desc["tolerance"] or 0.0
                choices = [desc["target"], desc["target"] + tol / 2, desc["target"] - tol / 2,
                           desc["target"] + 2 * tol + 0.3, desc["target"] - 2 * tol - 0.3, desc["target"] + 1.7]
                if tol in (0.5, 0.25):
                    # exactly on the documented closed edge |obs - target| == tolerance (dyadic values: no rounding in the difference)
                    choices += [desc["target"] + tol, desc["target"] - tol]
                choices = np.array(choices)
                x = choices[g.integers(0, len(choices), size=shape)]
                if desc["tolerance"] is None:
                    x = np.where(g.random(shape) < desc["p"], desc["target"], x + 0.37)
            elif kind in ("scaled_nearest", "scaled_cumulative"):
                x = np.where(g.random(shape) < desc["p"], g.uniform(0.6, 3.0, size=shape), g.uniform(-1.0, 0.4, size=shape))
            else:
                x = g.normal(size=shape) * 2
        if desc.get("zero_contribution") and desc["scale"] not in (0, 0.0) and (kind.startswith("scaled") or cond_kind):
            # a matching event whose contribution scale * h + amplitude is exactly zero is still an event (it resets a nearest
            # trace to 0, adds 0 to a cumulative one)
            z = -desc["amp"] / desc["scale"]
            if cond_kind or z > 0.5:
                x = np.where(g.random(shape) < 0.3, z, x)
                ctx.count("observations_with_zero_contribution_events")
        c = (g.random(shape) < desc["p"]) if cond_kind else None
        return x, c

    for oi, op in enumerate(desc["ops"]):
        rdesc = {**desc, "ops": desc["ops"][: oi + 1]}
        k = op["op"]
        n_since = len(orc.vals)
        N = max(math.ceil(desc["duration"] / dt) + int(bool(desc["inclusive"])), 1)      # the documented number of slots
        if r.data_.recordsz != N or r.data_.inclusive != bool(desc["inclusive"]) or r.inplace != bool(desc["inplace"]):
            return ctx.violation(f"{kind}.configuration_not_the_constructor_arguments",
                                 f"record of {r.data_.recordsz} slots, inclusive={r.data_.inclusive}, inplace={r.inplace}; constructed with "
                                 f"duration={desc['duration']}, dt={dt}, inclusive={desc['inclusive']}, inplace={desc['inplace']} ({N} slots)", rdesc)
        ctx.count("configuration_checks")
        try:
            if k == "clear":
                r.clear(keepshape=op["keepshape"])
                orc.reset()
                ctx.case(f"{kind}/clear/keep{int(op['keepshape'])}/n{min(n_since, 3)}")
                ctx.count("clears")
                if r.peek() is not None or r.view(0.0) is not None or r.dump() is not None:
                    return ctx.violation(f"{kind}.clear.not_initial", "peek/view/dump return data right after clear()", rdesc)
            elif k == "set_dt":
                r.dt = op["dt"]
                dt = op["dt"]
                ctx.case(f"{kind}/set_dt/{op['dt']}")
                ctx.count("dt_reassignments")
            elif k == "step":
                x, c = draw()
                xt = torch.from_numpy(x.copy())
                if desc["obs"] == "bool" and desc.get("obs_dtype") and kind in ("event", "passthrough", "ema", "ca"):
                    # spike-like observations handed over in their natural (non-float) data type: the reducer's own state
                    # type must not follow the type of what it happens to see first
                    xt = xt.to({"bool": torch.bool, "int64": torch.int64, "float32": torch.float32}[desc["obs_dtype"]])
                    ctx.count("nonfloat_observations")
                if cond_kind:
                    r(xt, torch.from_numpy(c.copy()))
                else:
                    r(xt)
                if desc.get("caller_reuses_buffer"):
                    # the caller's tensor is its own: overwritten in place right after the call (a reused input buffer)
                    if xt.dtype == torch.bool:
                        xt.logical_not_()
                    else:
                        xt.mul_(0).add_(77)
                    ctx.count("observations_overwritten_by_the_caller_afterwards")
                exp = orc.step(x, c, dt)
                got = r.peek()
                first = n_since == 0
                ctx.case(f"{kind}/step/{'first' if first else 'later'}/N{min(N, 4)}/{'ip' if desc['inplace'] else 'oop'}/"
                         f"{desc['obs']}/dt{desc['dt']}/{'events' if bool(np.any(orc._match(x, c))) else 'quiet'}")
                ctx.count("steps_checked")
                if got is None:
                    return ctx.violation(f"{kind}.peek.none_after_observation", "peek() is None after an observation", rdesc)
                if tuple(got.shape) != shape or not _close(_np(got), exp):
                    return ctx.violation(f"{kind}.value.{'first_observation' if first else 'later_observation'}",
                                         f"latest value differs from the closed form after {n_since + 1} observations", rdesc,
                                         {"got": _np(got).tolist(), "expected": exp.tolist()})
                if r.latest is None or not _close(_np(r.latest), exp):
                    return ctx.violation(f"{kind}.latest_property", "latest != peek", rdesc)
            elif k == "view":
                if n_since == 0:
                    continue
                maxk = min(n_since - 1, N - 1)
                for _ in range(op["n"]):
                    kk = int(g.integers(0, maxk + 1))
                    tok = ["on", "on", "q1", "q2", "q3", "snap+", "snap-"][int(g.integers(0, 7))] if kk < maxk else \
                        ["on", "snap-"][int(g.integers(0, 2))]
                    frac = {"on": 0.0, "q1": 0.25, "q2": 0.5, "q3": 0.75}.get(tok, 0.0)
                    tview = (kk + frac) * dt
                    vkw = {}
                    if tok.startswith("snap"):
                        # within the tolerance given to view(): the recorded value of that step, not an interpolation
                        tview = kk * dt + (3e-4 if tok == "snap+" else -3e-4)
                        vkw = {"tolerance": 1e-3}
                        ctx.count("views_with_tolerance")
                    if op["mode"] == "scalar":
                        got = r.view(tview, **vkw)
                    else:
                        # per-element times: alternate between this time and the exact step
                        tarr = np.full(shape, tview)
                        tarr.reshape(-1)[::2] = kk * dt
                        got = r.view(torch.from_numpy(tarr), **vkw)
                    latest_idx = n_since - 1
                    if frac == 0.0:
                        exp_t = orc.vals[latest_idx - kk]
                    else:
                        older, newer = orc.vals[latest_idx - kk - 1], orc.vals[latest_idx - kk]
                        exp_t = orc.interp(older, newer, dt * (1 - frac), dt)
                    if op["mode"] == "tensor":
                        e2 = exp_t.copy()
                        e2.reshape(-1)[::2] = orc.vals[latest_idx - kk].reshape(-1)[::2]
                        exp_t = e2
                    ctx.case(f"{kind}/view/{op['mode']}/{tok}/k{min(kk, 3)}/N{min(N, 4)}")
                    ctx.count("views_checked")
                    if got is None or tuple(got.shape) != shape or not _close(_np(got), exp_t, rtol=1e-8):
                        return ctx.violation(f"{kind}.view.{op['mode']}.{'ongrid' if frac == 0 else 'offgrid'}",
                                             f"view({tview}) differs from the recorded value {kk}+{frac} steps back", rdesc,
                                             {"got": None if got is None else _np(got).tolist(), "expected": exp_t.tolist()})
            elif k == "dump":
                if n_since == 0:
                    continue
                got = r.dump()
                ctx.case(f"{kind}/dump/N{min(N, 4)}/full{int(n_since >= N)}")
                ctx.count("dumps_checked")
                if got is None or tuple(got.shape) != (N,) + shape:
                    return ctx.violation(f"{kind}.dump.shape", f"dump shape {None if got is None else tuple(got.shape)}", rdesc)
                gd = _np(got)
                for j in range(N):
                    if j < n_since:
                        e = orc.vals[n_since - 1 - j]
                    else:
                        e = np.full(shape, fill)
                    if not _close(gd[j], e):
                        which = "recorded_rows_newest_first" if j < n_since else "unwritten_rows_fill"
                        return ctx.violation(f"{kind}.dump.{which}", f"dump row {j} wrong", rdesc,
                                             {"row": j, "got": gd[j].tolist(), "expected": e.tolist()})
                # dump must not disturb later behaviour: latest still the same
                if not _close(_np(r.peek()), orc.vals[-1]):
                    return ctx.violation(f"{kind}.dump.disturbed_latest", "peek() changed after dump()", rdesc)
        except Exception as e:  # noqa: BLE001
            return ctx.violation(ctx.exc_signature(e, f"{kind}.{k}"), f"{k} raised {type(e).__name__}: {str(e)[:140]}", rdesc)


# ------------------------------------------------------------------------------------------

def _functional(ctx, desc):
    _LOOSE[0] = False
    g = np.random.default_rng(desc["seed"])
    shape = tuple(desc["shape"])
    dt, tc, amp, sc, target, tol = desc["dt"], desc["tc"], desc["amp"], desc["scale"], desc["target"], desc["tolerance"]
    decay = math.exp(-dt / tc)
    fns = {
        "trace_nearest": lambda o, s: inferno.trace_nearest(o, s, decay=decay, amplitude=amp, target=target, tolerance=tol),
        "trace_cumulative": lambda o, s: inferno.trace_cumulative(o, s, decay=decay, amplitude=amp, target=target, tolerance=tol),
        "exp_trace_nearest": lambda o, s: inferno.exp_trace_nearest(o, s, step_time=dt, time_constant=tc, amplitude=amp, target=target, tolerance=tol),
        "exp_trace_cumulative": lambda o, s: inferno.exp_trace_cumulative(o, s, step_time=dt, time_constant=tc, amplitude=amp, target=target, tolerance=tol),
        "exprate_trace_nearest": lambda o, s: inferno.exprate_trace_nearest(o, s, step_time=dt, rate_constant=1 / tc, amplitude=amp, target=target, tolerance=tol),
        "exprate_trace_cumulative": lambda o, s: inferno.exprate_trace_cumulative(o, s, step_time=dt, rate_constant=1 / tc, amplitude=amp, target=target, tolerance=tol),
        "trace_nearest_scaled": lambda o, s: inferno.trace_nearest_scaled(o, s, decay=decay, amplitude=amp, scale=sc, matchfn=lambda x: x > 0.5),
        "trace_cumulative_scaled": lambda o, s: inferno.trace_cumulative_scaled(o, s, decay=decay, amplitude=amp, scale=sc, matchfn=lambda x: x > 0.5),
        "trace_cumulative_value": lambda o, s: inferno.trace_cumulative_value(o, s, decay=decay, scale=sc),
    }
    for name, fn in fns.items():
        state = None
        hist = []
        ctx.case(f"functional/{name}/dt{dt}/tol{tol}")
        for t in range(desc["T"]):
            if "scaled" in name or "value" in name:
                x = np.where(g.random(shape) < desc["p"], g.uniform(0.6, 3.0, size=shape), g.uniform(-1.0, 0.4, size=shape))
                m = x > 0.5
            else:
                hit = g.random(shape) < desc["p"]
                on = target + (g.integers(-1, 2, size=shape) * tol if tol in (0.5, 0.25) else 0.0)    # centre and both closed edges
                x = np.where(hit, on, target + 1.0 + (tol or 0))
                m = hit
            hist.append((x, m))
            try:
                state = fn(torch.from_numpy(x.copy()), state)
            except Exception as e:  # noqa: BLE001
                return ctx.violation(ctx.exc_signature(e, f"functional.{name}"), f"{type(e).__name__}: {str(e)[:120]}", desc)
            exp = np.zeros(shape)
            for f, (xf, mf) in enumerate(hist):
                age = (t - f) * dt
                if name == "trace_cumulative_value":
                    exp = exp + sc * xf * math.exp(-age / tc)
                    continue
                a = (amp + sc * xf) if "scaled" in name else amp
                contrib = a * math.exp(-age / tc)
                exp = exp + np.where(mf, contrib, 0.0) if "cumulative" in name else np.where(mf, contrib, exp)
            ctx.count("functional_steps_checked")
            if not _close(_np(state), exp):
                return ctx.violation(f"functional.{name}.closed_form", f"step {t}: differs from the closed form", desc,
                                     {"got": _np(state).tolist(), "expected": exp.tolist()})
