"""C15 - trainer / monitor lifecycle: one observation per training step, cells isolated.

M-model: an explicit registration / mode state machine over random operation sequences on 1-2 real trainers
attached to real layers whose cells share neurons or connections (and to two layers with identical component
names); every reducer fold is counted by a class-level wrapper on FoldReducer.forward keyed by reducer identity.
"""

from __future__ import annotations

import gc

import torch

import inferno
from inferno import learn, neural, observe
from inferno.observe import FoldReducer, PassthroughReducer, StateMonitor, InputMonitor, OutputMonitor, DifferenceMonitor

from rv import factory as fac
from rv import trainers as tr

TRAINER_KINDS = ["STDP", "TripletSTDP", "MSTDP", "MSTDPET", "KernelSTDP", "DelayAdjustedSTDP", "LinearHomeostasis"]
_CNT = {"installed": False, "folds": {}}


def _install():
    if _CNT["installed"]:
        return
    orig = FoldReducer.forward

    def forward(self, *a, **k):
        _CNT["folds"][id(self)] = _CNT["folds"].get(id(self), 0) + 1
        return orig(self, *a, **k)

    FoldReducer.forward = forward
    _CNT["installed"] = True


def generate(ctx):
    rng = ctx.rng
    th = ctx.tier == "thorough"
    cells = [("bi", "c0", "n0"), ("bi", "c1", "n0"), ("bi", "c0", "n1"), ("bi", "c1", "n1"), ("s1", "serial", "serial"), ("s2", "serial", "serial")]
    for _ in range(1800 if th else 50):
        kinds = [rng.choice(TRAINER_KINDS) for _ in range(rng.randint(1, 2))]
        ops = []
        for _ in range(rng.randint(20, 80)):
            r = rng.random()
            t = rng.randrange(len(kinds))
            if r < 0.14:
                ops.append(["register_cell", t, rng.randrange(len(cells))])
            elif r < 0.20:
                ops.append(["del_cell", t, rng.randrange(len(cells))])
            elif r < 0.28:
                ops.append(["add_monitor", t, rng.randrange(len(cells)), rng.choice(["neuron.spike", "connection.synspike", "neuron.voltage",
                                                                                     "neuron:out", "connection:in", "neuron.voltage:diff",
                                                                                     # the cell's documented alias attributes and private names
                                                                                     "prespike", "precurrent", "postspike", "postvoltage",
                                                                                     "synapse.spike", "neuron_.refrac", "connection_.weight"]),
                            rng.randrange(2), rng.random() < 0.3])
            elif r < 0.33:
                ops.append(["del_monitor", t, rng.randrange(len(cells)), rng.randrange(2)])
            elif r < 0.39:
                ops.append(["trainer_mode", t, rng.random() < 0.6])
            elif r < 0.45:
                ops.append(["layer_mode", rng.choice(["bi", "s1", "s2"]), rng.random() < 0.6])
            elif r < 0.78:
                ops.append(["layer_step", rng.choice(["bi", "bi", "s1", "s2"])])
            elif r < 0.88:
                ops.append(["trainer_step", t])
            elif r < 0.91:
                ops.append(["trainer_update", t])
            elif r < 0.95:
                ops.append(["clear", t, rng.choice([None, None, True, False])])
            elif r < 0.975:
                ops.append(["drop_trainer", t])
            elif r < 0.985:
                ops.append(["drop_layer", rng.choice(["s1", "s2"])])
            else:
                ops.append(["listings", t])
        if rng.random() < 0.35:
            # directed prefix around pooling: two cells of the Biclique layer that share a neuron (0,1 share n0; 2,3 share n1)
            # or a connection get the same probe, one of them is then replaced (unique) / deleted / its cell removed
            t0 = 0
            a, b = rng.choice([(0, 1), (2, 3), (0, 2), (1, 3)])
            attr = rng.choice(["neuron.spike", "neuron.voltage"]) if (a, b) in ((0, 1), (2, 3)) else "connection.synspike"
            pre = [["register_cell", t0, a], ["register_cell", t0, b], ["add_monitor", t0, a, attr, 0, False],
                   ["add_monitor", t0, b, attr, 0, False], ["layer_step", "bi"]]
            pre.append(rng.choice([["add_monitor", t0, b, attr, 0, True], ["del_monitor", t0, b, 0], ["del_cell", t0, b],
                                   ["replace_trainer_monitor", t0, b]]))
            pre += [["layer_step", "bi"], ["layer_step", "bi"], ["trainer_step", t0]]
            ops = pre + ops
        elif rng.random() < 0.3:
            # directed prefix around a cell that dies WITHOUT removal (its layer loses its last reference): the trainer's other
            # cells keep recording, keep their own state and monitors, and survive mode switches
            t0 = 0
            first, second = rng.choice([(4, 5), (5, 4), (4, 0), (5, 3)])
            dead_layer = cells[first][0]
            live_layer = cells[second][0]
            pre = [["register_cell", t0, first], ["register_cell", t0, second], ["layer_step", dead_layer], ["layer_step", live_layer],
                   ["add_monitor", t0, second, "neuron.spike", 0, False], ["drop_layer", dead_layer], ["layer_step", live_layer],
                   ["listings", t0]]
            if rng.random() < 0.6:
                pre += [["trainer_mode", t0, False], ["layer_step", live_layer], ["trainer_mode", t0, True]]
            pre += [["layer_step", live_layer], ["trainer_step", t0], ["listings", t0]]
            ops = pre + ops
        if rng.random() < 0.4:
            ci = rng.randrange(len(cells))
            lay = cells[ci][0]
            at = rng.randrange(len(ops) + 1)
            ops[at:at] = [["register_cell", 0, ci], ["layer_step", lay], ["strip_and_reregister", 0, ci], ["layer_step", lay],
                          ["trainer_step", 0], ["listings", 0]]
        yield {"kinds": kinds, "ops": ops, "seed": rng.randrange(1 << 30), "cells": cells}


class World:
    def __init__(self, desc):
        g = torch.Generator().manual_seed(desc["seed"])
        mkc = lambda nin, nout: fac.make_connection("dense", 1.0, syn="delta", B=1, delay=2.0, nin=nin, nout=nout)
        self.layers = {}
        c0, c1 = mkc(3, 2), mkc(3, 2)
        n0, n1 = fac.make_neuron("LIF", (2,), 1.0, 1), fac.make_neuron("ALIF", (2,), 1.0, 1)
        self.layers["bi"] = neural.Biclique([("c0", c0), ("c1", c1)], [("n0", n0), ("n1", n1)], combine="sum")
        for nm in ("s1", "s2"):
            self.layers[nm] = neural.Serial(mkc(3, 2), fac.make_neuron("LIF", (2,), 1.0, 1))
        for L in self.layers.values():
            for _, c in L.named_connections:
                fac.randomize(c, g, wscale=2.0, delay_steps=2, dt=1.0)
                c.updater = c.defaultupdater()
        self.g = g

    def cell(self, spec):
        L, c, n = spec
        return self.layers[L].get_cell(c, n)

    def step(self, lname):
        L = self.layers[lname]
        x = torch.rand(1, 3, generator=self.g) < 0.7
        self.prev_v = {(lname, nn_): nrn.voltage.detach().clone() for nn_, nrn in L.named_neurons}
        if lname == "bi":
            x1 = torch.rand(1, 3, generator=self.g) < 0.7
            self.last_in = {(lname, "c0"): x, (lname, "c1"): x1}
            return L({"c0": (x,), "c1": (x1,)})
        self.last_in = {(lname, "serial"): x}
        return L(x)

    def attr_value(self, spec, attr):
        L, c, n = spec
        if attr == "neuron:out":
            return self.layers[L].get_neuron(n).spike
        if attr == "connection:in":
            return self.last_in[(L, c)].float()
        if attr == "neuron.voltage:diff":
            return self.layers[L].get_neuron(n).voltage - self.prev_v[(L, n)]
        conn, nrn = self.layers[L].get_connection(c), self.layers[L].get_neuron(n)
        alias = {"prespike": lambda: conn.synspike, "precurrent": lambda: conn.syncurrent, "postspike": lambda: nrn.spike,
                 "postvoltage": lambda: nrn.voltage, "synapse.spike": lambda: conn.synapse.spike, "neuron_.refrac": lambda: nrn.refrac,
                 "connection_.weight": lambda: conn.weight}
        if attr in alias:
            return alias[attr]()
        comp, leaf = attr.split(".")
        obj = self.layers[L].get_neuron(n) if comp == "neuron" else self.layers[L].get_connection(c)
        return getattr(obj, leaf)


def _probe_constructor(attr):
    """(attribute path handed to add_monitor, partial constructor): state probes and the other shipped monitor kinds"""
    red = PassthroughReducer(1.0, duration=0.0, inclusive=True)
    if attr.endswith(":out"):
        return attr[:-4], OutputMonitor.partialconstructor(reducer=red, train_update=True, eval_update=False, prepend=True)
    if attr.endswith(":in"):
        return attr[:-3], InputMonitor.partialconstructor(reducer=red, train_update=True, eval_update=False, prepend=True,
                                                          map_=lambda inputs: (inputs[0].float(),))
    if attr.endswith(":diff"):
        return attr[:-5], DifferenceMonitor.partialconstructor(reducer=red, train_update=True, eval_update=False, prepend=True)
    return attr, StateMonitor.partialconstructor(reducer=red, as_prehook=False, train_update=True, eval_update=False, prepend=True)


def _mk_trainer(kind):
    if kind == "LinearHomeostasis":
        return learn.LinearHomeostasis(0.01, 0.5, "weight")
    return tr.build_trainer(kind, {"lr_a": 0.01, "lr_b": -0.01}, torch.sum)


def _call_trainer(kind, trn):
    if kind in tr.THREE_FACTOR:
        trn(0.5)
    else:
        trn()


def run_case(ctx, desc):
    _install()
    if len(ctx.samples) < 2:
        ctx.sample({**desc, "ops": desc["ops"][:12]})
    w = World(desc)
    kinds = desc["kinds"]
    trainers = [_mk_trainer(k) for k in kinds]
    alive = [True] * len(kinds)
    tmode = [True] * len(kinds)            # nn.Module default: training
    lmode = {k: True for k in w.layers}
    reg = [dict() for _ in kinds]          # per trainer: cell name -> spec index
    probes = [dict() for _ in kinds]       # per trainer: (cell name, probe name) -> attr
    seen = [dict() for _ in kinds]         # per trainer: cell name -> layer steps recorded since registration / clear
    cells = [tuple(c) for c in desc["cells"]]
    name_of = lambda ci: f"cell{ci}"
    had_dead = [False] * len(kinds)        # per trainer: a registered cell died without del_cell (its monitors stay listed)
    ever = {}                              # cell index -> trainers that ever registered it (cell-level monitor registry is shared)

    def mstdpet_registry_shared():
        return any(alive[i] and kinds[i] == "MSTDPET" and any(len(ever.get(ci, ())) > 1 for ci in reg[i].values())
                   for i in range(len(kinds)))

    def slots(ti):
        """(cell name, monitor name, monitor object) for every registered slot of trainer ti"""
        out = []
        for cname in reg[ti]:
            for mname, mon in trainers[ti].named_monitors_of(cname):
                out.append((cname, mname, mon))
        return out

    def do_op(oi, op):
        """one operation in its own scope: no local reference (trainer, monitor, list) may outlive it"""
        rdesc = {**desc, "ops": desc["ops"][: oi + 1]}
        k = op[0]
        ti = op[1] if k not in ("layer_mode", "layer_step", "drop_layer") else None
        if k in ("layer_mode", "layer_step", "drop_layer") and w.layers[op[1]] is None:
            return None
        if k in ("register_cell", "del_cell", "add_monitor", "replace_trainer_monitor") and w.layers[cells[op[2]][0]] is None:
            return None
        if ti is not None and not alive[ti]:
            return None
        tk = kinds[ti] if ti is not None else "-"
        try:
            if k == "register_cell":
                ci = op[2]
                if name_of(ci) in reg[ti]:
                    # a registration under a name that is taken is refused (documented ValueError) - and leaves the cell that
                    # owns the name, its monitors and its listings exactly as they were (judged by the checks that follow)
                    ctx.case(f"register_duplicate/{tk}/{cells[ci][0]}")
                    ctx.count("rejected_duplicate_registrations")
                    try:
                        trainers[ti].register_cell(name_of(ci), w.cell(cells[ci]))
                    except ValueError:
                        return None
                    return ("register_cell.duplicate_name_accepted", "a second registration under a taken name was accepted")
                ctx.case(f"register_cell/{tk}/{cells[ci][0]}/n{len(reg[ti])}/other{sum(len(r) for j, r in enumerate(reg) if j != ti)}")
                trainers[ti].register_cell(name_of(ci), w.cell(cells[ci]))
                reg[ti][name_of(ci)] = ci
                seen[ti][name_of(ci)] = 0
                ever.setdefault(ci, set()).add(ti)
            elif k == "del_cell":
                ci = op[2]
                if name_of(ci) not in reg[ti]:
                    return None
                ctx.case(f"del_cell/{tk}/{cells[ci][0]}/n{len(reg[ti])}")
                trainers[ti].del_cell(name_of(ci))
                del reg[ti][name_of(ci)]
                seen[ti].pop(name_of(ci), None)
                for key in [p for p in probes[ti] if p[0] == name_of(ci)]:
                    del probes[ti][key]
            elif k == "add_monitor":
                ci, attr, pi, uniq = op[2], op[3], op[4], op[5]
                if name_of(ci) not in reg[ti]:
                    return None
                pname = f"probe{pi}"
                if (name_of(ci), pname) in probes[ti] and not uniq:
                    # documented: a monitor that exists under that name is returned as it is (nothing new is created or registered,
                    # whatever attribute the repeated call names) - the observation counts that follow judge "nothing registered"
                    ctx.case(f"add_monitor_again/{tk}/{cells[ci][0]}")
                    ctx.count("repeated_add_monitor_calls")
                    have = trainers[ti].get_monitor(name_of(ci), pname)
                    path, ctor = _probe_constructor(attr)
                    again = trainers[ti].add_monitor(name_of(ci), pname, path, ctor, False, probe=attr)
                    if have is None or again is not have or trainers[ti].get_monitor(name_of(ci), pname) is not have:
                        return ctx.violation("add_monitor.existing_name_not_returned_as_is",
                                             "add_monitor under an existing name (unique=False) did not return the existing monitor", rdesc)
                    return None
                ctx.case(f"add_monitor/{tk}/{attr}/uniq{int(uniq)}/{cells[ci][0]}")
                path, ctor = _probe_constructor(attr)
                trainers[ti].add_monitor(name_of(ci), pname, path, ctor, uniq, probe=attr)
                probes[ti][(name_of(ci), pname)] = attr
                if ":" in attr:
                    ctx.count("probes_of_other_monitor_kinds")
                if attr in ("prespike", "precurrent", "postspike", "postvoltage", "synapse.spike", "neuron_.refrac", "connection_.weight"):
                    ctx.count("probes_on_cell_alias_attributes")
            elif k == "replace_trainer_monitor":
                ci = op[2]
                if name_of(ci) not in reg[ti] or tk == "LinearHomeostasis":
                    return None
                ctx.case(f"replace_trainer_monitor/{tk}/{cells[ci][0]}")
                ctx.count("trainer_monitor_replacements")
                trainers[ti].add_monitor(name_of(ci), "spike_post", "neuron.spike", StateMonitor.partialconstructor(
                    reducer=(observe.EventReducer(1.0, lambda x: x.bool(), "nan", 0.0) if "Kernel" in tk or "DelayAdjusted" in tk
                             else PassthroughReducer(1.0, duration=0.0, inclusive=True)),
                    as_prehook=False, train_update=True, eval_update=False, prepend=True), True)
                seen[ti][name_of(ci)] = 0
            elif k == "del_monitor":
                ci, pi = op[2], op[3]
                key = (name_of(ci), f"probe{pi}")
                if key not in probes[ti]:
                    return None
                ctx.case(f"del_monitor/{tk}/{cells[ci][0]}")
                trainers[ti].del_monitor(*key)
                del probes[ti][key]
            elif k == "strip_and_reregister":
                # every monitor of the cell (the trainer's own ones included) is deleted one by one with del_monitor, then the
                # cell is removed and registered again under the name it had: the name is free again and recording starts anew
                ci = op[2]
                cn = name_of(ci)
                if cn not in reg[ti]:
                    return None
                ctx.case(f"strip_and_reregister/{tk}/{cells[ci][0]}")
                for mn in [mn for mn, _ in trainers[ti].named_monitors_of(cn)]:
                    trainers[ti].del_monitor(cn, mn)
                if list(trainers[ti].named_monitors_of(cn)):
                    return ctx.violation("del_monitor.listing_not_empty_after_deleting_every_monitor",
                                         f"named_monitors_of('{cn}') still lists monitors", rdesc)
                trainers[ti].del_cell(cn)
                for key in [p for p in probes[ti] if p[0] == cn]:
                    del probes[ti][key]
                del reg[ti][cn]
                seen[ti].pop(cn, None)
                trainers[ti].register_cell(cn, w.cell(cells[ci]))
                reg[ti][cn] = ci
                seen[ti][cn] = 0
                ctx.count("cells_stripped_of_monitors_then_reregistered")
            elif k == "trainer_mode":
                ctx.case(f"trainer_mode/{tk}/{op[2]}", nontrivial=False)
                trainers[ti].train(op[2])
                tmode[ti] = op[2]
            elif k == "layer_mode":
                ctx.case(f"layer_mode/{op[1]}/{op[2]}", nontrivial=False)
                w.layers[op[1]].train(op[2])
                lmode[op[1]] = op[2]
            elif k == "clear":
                keep = op[2] if len(op) > 2 else None
                ctx.case(f"clear/{tk}/keepshape-{keep}")
                if keep is None:
                    trainers[ti].clear()
                else:
                    # documented: keyword arguments are passed on to the monitors' clear (storage kept and refilled, or dropped)
                    trainers[ti].clear(keepshape=keep)
                    ctx.count("trainer_clears_with_keepshape")
                for cn in seen[ti]:
                    seen[ti][cn] = 0
                for cn, mn, mon in slots(ti):
                    ctx.count("clear_checks")
                    if mon.peek() is not None:
                        return ctx.violation("clear.monitor_not_cleared", f"after trainer.clear() monitor '{mn}' of {cn} still holds data", rdesc)
            elif k == "drop_layer":
                # drop-last-reference-and-collect on a whole layer: its cells die without del_cell
                lname = op[1]
                ndead = sum(1 for r in reg for ci in r.values() if cells[ci][0] == lname)
                ctx.case(f"drop_layer/{lname}/registered_cells{min(ndead, 3)}/trainers{sum(alive)}")
                if ndead:
                    ctx.count("cells_died_without_removal", ndead)
                w.layers[lname] = None
                gc.collect()
                for ti2 in range(len(kinds)):
                    for cn in [cn for cn, ci in reg[ti2].items() if cells[ci][0] == lname]:
                        del reg[ti2][cn]
                        seen[ti2].pop(cn, None)
                        had_dead[ti2] = True
                        for key in [p for p in probes[ti2] if p[0] == cn]:
                            del probes[ti2][key]
            elif k == "drop_trainer":
                ctx.case(f"drop_trainer/{tk}/n{len(reg[ti])}")
                trainers[ti] = None
                gc.collect()
                alive[ti] = False
                reg[ti], probes[ti], seen[ti] = {}, {}, {}
            elif k == "listings":
                ctx.case(f"listings/{tk}/n{len(reg[ti])}")
                ctx.count("listing_checks")
                trn = trainers[ti]
                named_cells = sorted(n for n, _ in trn.named_cells)
                ncells = len(list(trn.cells))
                if named_cells != sorted(reg[ti]) or ncells != len(reg[ti]):
                    return ctx.violation("listing.cells_ne_registered", f"named_cells {named_cells} registered {sorted(reg[ti])}", rdesc)
                exp_named = sorted((c, m) for c, m, _ in slots(ti))
                # monitors of a cell that died without removal stay in the pool until its name is reused: judged for live cells
                got_named = sorted(k2 for k2, _ in trn.named_monitors if not had_dead[ti] or k2[0] in reg[ti])
                if got_named != exp_named:
                    return ctx.violation("listing.named_monitors_ne_registered", f"{got_named} vs {exp_named}", rdesc)
                mons = list(trn.monitors)
                exp_ids = {id(m) for _, _, m in slots(ti)}
                got_ids = {id(m) for m in mons}
                if (not exp_ids <= got_ids) if had_dead[ti] else (got_ids != exp_ids or len(mons) != len(exp_ids)):
                    return ctx.violation("listing.monitors_ne_registered", "monitors does not list exactly the registered monitor objects", rdesc)
                if hasattr(trn, "get_unit"):
                    # iterating the trainer lists (cell, auxiliary state, monitors) per registered cell: each cell with its own
                    units = list(trn)
                    ctx.count("unit_listing_checks")
                    if len(units) != len(reg[ti]):
                        return ctx.violation("listing.units_ne_registered", f"{len(units)} units for {len(reg[ti])} registered cells", rdesc)
                    for (ucell, ustate, umons), (cn, (rcell, rstate)) in zip(units, list(trn.named_cells)):
                        exp_m = dict(trn.named_monitors_of(cn))
                        gu = trn.get_unit(cn)
                        if (ucell is not rcell or ucell is not gu.cell or ustate is not gu.state or ustate is not rstate
                                or set(umons) != set(exp_m)
                                or any(umons[k2] is not exp_m[k2] for k2 in exp_m)):
                            return ctx.violation("listing.unit_pairs_cell_with_foreign_state_or_monitors",
                                                 f"iterating the trainer pairs cell '{cn}' with another cell's auxiliary state / monitors", rdesc)
            elif k == "trainer_update":
                if not reg[ti]:
                    return None
                ctx.case(f"trainer_update/{tk}")
                trainers[ti].update()
            elif k == "trainer_step":
                # in-domain only when every registered cell has been observed since registration / clear
                ready = reg[ti] and all(seen[ti].get(cn, 0) >= 1 for cn in reg[ti])
                if not ready:
                    return None
                shared = sum(1 for j in range(len(kinds)) if j != ti and alive[j] and set(reg[j].values()) & set(reg[ti].values()))
                ctx.case(f"trainer_step/{tk}/ncells{min(len(reg[ti]), 3)}/shared_with_other{int(bool(shared))}/mode{int(tmode[ti])}")
                ctx.count("trainer_steps")
                _call_trainer(tk, trainers[ti])
                for cn in reg[ti]:
                    upd = w.cell(cells[reg[ti][cn]]).updater
                    if upd is not None:
                        upd.clear()
            elif k == "layer_step":
                lname = op[1]
                before = dict(_CNT["folds"])
                # strong references so ids stay valid during the step
                held = [(ti2, cn, mn, mon) for ti2 in range(len(kinds)) if alive[ti2] for cn, mn, mon in slots(ti2)]
                w.step(lname)
                nreg = sum(len(r) for r in reg)
                ctx.case(f"layer_step/{lname}/{'train' if lmode[lname] else 'eval'}/slots{min(len(held), 6)}/"
                         f"trainers{sum(alive)}/{'-'.join(sorted(set(kinds)))}")
                ctx.count("layer_steps")
                for ti2, cn, mn, mon in held:
                    spec = cells[reg[ti2][cn]]
                    rid = id(mon.reducer)
                    delta = _CNT["folds"].get(rid, 0) - before.get(rid, 0)
                    exp = 1 if (tmode[ti2] and lmode[lname] and spec[0] == lname) else 0
                    ctx.count("slot_observations_checked")
                    if delta == exp == 1 and mon.peek() is None:
                        return ctx.violation(f"slot.observation_folded_but_not_held.{'probe' if mn.startswith('probe') else 'trainer_monitor'}",
                                             f"trainer {ti2} ({kinds[ti2]}) cell {cn} monitor '{mn}' was called for the step of layer {lname} "
                                             f"but holds no observation afterwards", rdesc)
                    if delta != exp:
                        other_layer = spec[0] != lname
                        why = ("recorded_for_another_layers_step" if (other_layer and delta) else
                               "missed_observation" if delta < exp else "recorded_when_not_training" if exp == 0 else "duplicate_observation")
                        return ctx.violation(f"slot.{why}.{'probe' if mn.startswith('probe') else 'trainer_monitor'}",
                                             f"trainer {ti2} ({kinds[ti2]}) cell {cn} {spec} monitor '{mn}': {delta} observations for a step of "
                                             f"layer {lname} (expected {exp}; trainer training={tmode[ti2]}, layer training={lmode[lname]})", rdesc)
                    if exp == 1 and (cn, mn) in probes[ti2]:
                        val = w.attr_value(spec, probes[ti2][(cn, mn)])
                        got = mon.peek()
                        ctx.count("probe_values_checked")
                        if got is None or got.shape != val.shape or not torch.equal(got.to(val.dtype), val):
                            return ctx.violation("slot.probe_value_not_current_attribute_of_its_layer",
                                                 f"probe '{mn}' of cell {spec} does not hold that cell's {probes[ti2][(cn, mn)]}", rdesc)
                del held
                for ti2 in range(len(kinds)):
                    if alive[ti2] and tmode[ti2] and lmode[lname]:
                        for cn, ci in reg[ti2].items():
                            if cells[ci][0] == lname:
                                seen[ti2][cn] = seen[ti2].get(cn, 0) + 1
        except Exception as e:  # noqa: BLE001
            held = None
            if k in ("layer_step", "trainer_step") and mstdpet_registry_shared():
                # MSTDPET's eligibility monitors read the OTHER monitors through the cell-level registry (keyed by monitor
                # name only), which a second trainer on the same cell overwrites / lets expire
                return ctx.violation(f"mstdpet.eligibility_reads_cell_level_monitor_registry.second_trainer_on_same_cell",
                                     f"{k} raised {type(e).__name__}: {str(e)[:160]} while an MSTDPET trainer shares a cell with a second trainer",
                                     rdesc)
            return ctx.violation(ctx.exc_signature(e, f"{k}.{tk}"), f"{k} raised {type(e).__name__}: {str(e)[:200]}", rdesc)

    for oi, op in enumerate(desc["ops"]):
        nv = sum(ctx.violation_counts.values())
        do_op(oi, op)
        if sum(ctx.violation_counts.values()) != nv:
            return
