"""C06 - a connection delay is a pure per-synapse time shift.

M-rel: a delayed connection is stepped next to an undelayed twin (same weights, same synapse
parameters); the twin's per-step synaptic state is logged and the delayed connection must produce,
at step t, the connection's map of contributions taken from step t - d/dt (resting state before the
start / the last clear; the synapse's interpolation rule between steps).
"""

from __future__ import annotations

import math

import numpy as np
import torch

import inferno
from inferno.neural import (LinearDense, LinearDirect, LinearLateral, Conv2D, DeltaCurrent, DeltaPlusCurrent,
                            SingleExponentialCurrent, DoubleExponentialCurrent)

CONNS = ["dense", "direct", "lateral", "conv"]
SYNS = ["delta", "deltaplus", "single", "double"]


def generate(ctx):
    rng = ctx.rng
    th = ctx.tier == "thorough"
    for i in range(1400 if th else 128):
        conn = CONNS[i % 4]
        syn = SYNS[(i // 4) % 4]
        dt = rng.choice([1.0, 0.5, 1.3, 1.3, 1.7, 0.1])
        K = rng.choice([1, 3, 5, 5, 6, 7, 12, 13])
        dtype = rng.choice(["float64", "float64", "float32"])
        mode = rng.choice(["ongrid", "ongrid", "mixed", "zero", "homogeneous"])
        events = []
        T = 3 * K + 10
        for t in range(T):
            r = rng.random()
            if r < 0.05:
                events.append("clear")
            elif r < 0.12:
                events.append("reassign")
            else:
                events.append("step")
        # k * 1.3 / 1.3 is not always exactly k in floating point (6, 11, 12, 14 ...). In double precision the library's own
        # dt * round(time / dt) reproduces k * dt bit for bit, so a zero tolerance still reads such a delay as on the grid; in
        # single precision (python-float dt times a float32 tensor) it need not, and the longer delays carry a tolerance
        tol = 1e-3 if (K > 5 and dt not in (1.0, 0.5) and dtype == "float32") else rng.choice([0.0, 0.0, 1e-3])
        substep = rng.random() < 0.12
        if substep:
            K, mode = 0, "mixed"
        yield {"conn": conn, "syn": syn, "dt": dt, "K": K, "tol": tol, "mode": mode,
               "interp": rng.choice(["previous", "nearest"]), "B": rng.randint(1, 3), "bias": rng.random() < 0.4,
               "dtype": dtype, "p": rng.choice([0.2, 0.5, 0.8]),
               "seed": rng.randrange(1 << 30), "events": events,
               # reach the step time through the dt setter after construction (retimed connection) instead of the constructor
               "retimed_from": None if substep else rng.choice([None, None, 1.0, 0.5, 2.0]), "inplace": rng.random() < 0.5,
               # reach the maximum delay through the synapse's delay setter (built with a smaller / larger one)
               "redelayed_from": None if substep else rng.choice([None, None, 0, 1, 2 * K]), "substep": substep,
               "conv_geom": rng.choice([None, "strided", "dilated"])}


def _synctor(desc):
    k = desc["syn"]
    common = dict(interp_tol=desc["tol"], inplace=bool(desc.get("inplace")))
    if k == "delta":
        return DeltaCurrent.partialconstructor(1.5, desc["interp"], **common)
    if k == "deltaplus":
        return DeltaPlusCurrent.partialconstructor(1.5, desc["interp"], **common)
    if k == "single":
        return SingleExponentialCurrent.partialconstructor(1.5, 4.0, desc["interp"], **common)
    return DoubleExponentialCurrent.partialconstructor(1.5, 6.0, 1.5, desc["interp"], **common)


def _build(desc, delayed):
    c, dt, B = desc["conn"], desc["dt"], desc["B"]
    delay = (desc["K"] + (0.5 if desc.get("substep") else 0.0)) * dt if delayed else None
    kw = dict(synapse=_synctor(desc), bias=desc["bias"], delay=delay, batch_size=B)
    if c == "dense":
        m = LinearDense((3,), (2,), dt, **kw)
    elif c == "direct":
        m = LinearDirect((4,), dt, **kw)
    elif c == "lateral":
        m = LinearLateral((3,), dt, **kw)
    elif desc.get("conv_geom") == "strided":
        # two channels, a non-square kernel, unequal strides and padding: more windows and taps, same per-synapse time shift
        m = Conv2D(5, 4, 2, 2, dt, (2, 3), stride=(2, 1), padding=(1, 0), **kw)
    elif desc.get("conv_geom") == "dilated":
        m = Conv2D(5, 5, 1, 3, dt, (2, 2), dilation=2, padding=1, **kw)
    else:
        m = Conv2D(4, 4, 1, 2, dt, (2, 2), **kw)
    if desc["dtype"] == "float64":
        m.to(torch.float64)
    return m


def _build_retimed(desc, delayed):
    """same configuration reached by assigning dt after construction"""
    dt0 = desc.get("retimed_from")
    K0 = desc.get("redelayed_from")
    d0 = dict(desc)
    if delayed and K0 is not None and K0 != desc["K"]:
        d0["K"] = K0
    if not dt0 or dt0 == desc["dt"]:
        m = _build(d0, delayed)
    else:
        m = _build({**d0, "dt": dt0, "K": d0["K"] * desc["dt"] / dt0}, delayed)
        m.dt = desc["dt"]
    if d0["K"] != desc["K"]:
        m.synapse.delay = desc["K"] * desc["dt"]
    return m


def _np(t):
    return t.detach().to(torch.float64).numpy().copy()


def _draw_delays(desc, shape, g, mask=None):
    """integer part k, fraction f (per synapse) and the delay tensor (k + f) * dt"""
    K, dt, mode = desc["K"], desc["dt"], desc["mode"]
    if desc.get("substep"):
        # maximum delay of half a step: two stored observations, every non-zero delay lies between them
        k = np.zeros(shape, dtype=np.int64)
        frs = np.array([0.0, 0.25]) if desc["interp"] == "nearest" else np.array([0.0, 0.25, 0.5])
        f = frs[g.integers(0, len(frs), size=shape)]
    elif mode == "zero":
        k = np.zeros(shape, dtype=np.int64)
        f = np.zeros(shape)
    elif mode == "homogeneous":
        kk = int(g.integers(0, K + 1))
        k = np.full(shape, kk, dtype=np.int64)
        f = np.zeros(shape)
    else:
        k = g.integers(0, K + 1, size=shape)
        f = np.zeros(shape)
        if mode == "mixed":
            frs = np.array([0.0, 0.25, 0.5, 0.75])
            if desc["interp"] == "nearest" and dt not in (1.0, 0.5):
                frs = np.array([0.0, 0.25, 0.75])  # keep clear of the nearest tie on a non-representable grid
            f = frs[g.integers(0, len(frs), size=shape)]
            f = np.where(k >= K, 0.0, f)
    if mask is not None:
        k, f = k * mask.astype(np.int64), f * mask
    d = (k + f) * dt   # the way a user computes it: number of steps times the step time
    return k, f, d


def _shifted(log, t0, t, k, f, desc, what, synshape_axes):
    """value of `what` at (k + f) steps before step t, for logs starting at step t0 (resting state before).
    log[s] is a dict of per-step arrays of shape (B, *syn); k, f have the connection's selector shape and are
    aligned to the synapse axes by `synshape_axes` (a function expanding a synapse-state array to selector shape)."""
    dt = desc["dt"]

    def get(key, s):
        if s < t0 or s < 0:
            return np.zeros_like(log[t0][key]) if key != "spike" else np.zeros_like(log[t0][key])
        return log[s][key]

    out = None
    for kk in np.unique(k):
        for ff in np.unique(f[k == kk]):
            sel = (k == kk) & (f == ff)
            newer_t, older_t = t - int(kk), t - int(kk) - 1
            if ff == 0.0:
                if what == "current":
                    val = synshape_axes(get("current", newer_t))
                else:
                    val = synshape_axes(get("spike", newer_t))
            else:
                el = dt * (1 - ff)
                pick_newer = desc["interp"] == "nearest" and (el / dt > 0.5)
                if what == "spike":
                    val = synshape_axes(get("spike", newer_t if pick_newer else older_t))
                elif desc["syn"] in ("delta", "deltaplus"):
                    val = synshape_axes(get("current", newer_t if pick_newer else older_t))
                elif desc["syn"] == "single":
                    val = synshape_axes(get("current", older_t)) * math.exp(-el / 4.0)
                else:
                    val = (synshape_axes(get("pos", older_t)) * math.exp(-el / 6.0)
                           - synshape_axes(get("neg", older_t)) * math.exp(-el / 1.5))
            shp = np.broadcast_shapes(sel.shape, val.shape)
            if out is None:
                out = np.zeros(shp, dtype=np.float64)
            out = np.where(np.broadcast_to(sel, shp), np.broadcast_to(val, shp), out)
    return out


def run_case(ctx, desc):
    key = f"{desc['conn']}.{desc['syn']}"
    if ctx.counters.get("sampled." + key, 0) == 0 and len(ctx.samples) < 4:
        ctx.count("sampled." + key)
        ctx.sample({**desc, "events": desc["events"][:10]})
    g = np.random.default_rng(desc["seed"])
    tg = torch.Generator().manual_seed(desc["seed"])
    conn, syn, dt, B = desc["conn"], desc["syn"], desc["dt"], desc["B"]
    f64 = desc["dtype"] == "float64"
    tdt = torch.float64 if f64 else torch.float32
    try:
        D, U = _build_retimed(desc, True), _build_retimed(desc, False)
        if desc.get("retimed_from") and desc["retimed_from"] != desc["dt"]:
            ctx.count("retimed_connections")
        if desc.get("redelayed_from") is not None and desc["redelayed_from"] != desc["K"]:
            ctx.count("redelayed_connections")
    except Exception as e:  # noqa: BLE001
        return ctx.violation(ctx.exc_signature(e, f"construct.{conn}.{syn}"), f"{type(e).__name__}: {str(e)[:140]}", desc)
    if conn == "conv" and desc.get("conv_geom"):
        ctx.count("delayed_conv_with_stride_padding_or_dilation")
    W = torch.randn(D.weight.shape, generator=tg, dtype=torch.float64).to(tdt)
    D.weight, U.weight = W.clone(), W.clone()
    if desc["bias"]:
        bb = torch.randn(D.bias.shape, generator=tg, dtype=torch.float64).to(tdt)
        D.bias, U.bias = bb.clone(), bb.clone()
    Z = None
    if desc["mode"] == "zero":
        # the third member: built with a supported maximum delay of 0.0 (documented: registers a delay parameter, uses no
        # delays) - indistinguishable from the connection without delays in its output AND in the views exposed for learning
        try:
            Z = _build({**desc, "K": 0, "substep": False}, True)
        except Exception as e:  # noqa: BLE001
            return ctx.violation(ctx.exc_signature(e, f"construct_zero_maximum_delay.{conn}.{syn}"), f"{type(e).__name__}: {str(e)[:140]}", desc)
        Z.weight = W.clone()
        if desc["bias"]:
            Z.bias = bb.clone()
    Wn = _np(D.weight)   # lateral: already masked by the setter
    bn = _np(D.bias) if desc["bias"] else None
    lat_mask = (1 - np.eye(3)) if conn == "lateral" else None

    # selector-shaped views:  dense/lateral (B, I, O) ; direct (B, N, 1) ; conv (B, N, L, F)
    if conn in ("dense", "lateral"):
        dshape = tuple(D.weight.shape)                       # (O, I)
        to_sel = lambda kd: np.transpose(kd, (1, 0))[None]   # (1, I, O)
        expand = lambda a: a[:, :, None]                     # (B, I) -> (B, I, 1)
        contract = lambda sc: np.einsum("bio,oi->bo", sc, Wn)
    elif conn == "direct":
        dshape = tuple(D.weight.shape)                       # (N,)
        to_sel = lambda kd: kd[None, :, None]
        expand = lambda a: a[:, :, None]
        contract = lambda sc: sc[:, :, 0] * Wn[None]
    else:
        dshape = tuple(D.weight.shape)                       # (F, C, kh, kw)
        to_sel = lambda kd: np.transpose(kd.reshape(dshape[0], -1), (1, 0))[None, :, None, :]   # (1, N, 1, F)
        expand = lambda a: a[:, :, :, None]                  # (B, N, L) -> (B, N, L, 1)
        contract = lambda sc: np.einsum("bnlf,fn->bfl", sc, Wn.reshape(dshape[0], -1))

    def assign_delays():
        k, f, d = _draw_delays(desc, dshape, g, lat_mask)
        D.delay = torch.from_numpy(d).to(tdt)
        return to_sel(k), to_sel(f)

    ksel, fsel = assign_delays()
    log, t0, t = {}, 0, -1
    rtol, atol = (1e-9, 1e-10) if f64 else (2e-5, 2e-5)
    tag = f"{conn}/{syn}/dt{dt}/K{desc['K']}/tol{desc['tol']}/{desc['mode']}/{desc['interp']}/{desc['dtype']}"
    for ei, ev in enumerate(desc["events"]):
        rdesc = {**desc, "events": desc["events"][: ei + 1]}
        try:
            if ev == "clear":
                D.clear()
                U.clear()
                if Z is not None:
                    Z.clear()
                t0 = t + 1
                ctx.case(f"{tag}/clear", nontrivial=False)
                ctx.count("clears")
                continue
            if ev == "reassign":
                ksel, fsel = assign_delays()
                ctx.case(f"{tag}/reassign", nontrivial=False)
                ctx.count("delay_reassignments")
                continue
            t += 1
            ish = (B,) + tuple(D.inshape)
            s = (torch.rand(ish, generator=tg) < desc["p"]).to(tdt)
            args = (s, torch.randn(ish, generator=tg, dtype=torch.float64).to(tdt)) if syn == "deltaplus" else (s,)
            outD = D(*args)
            outU = U(*args)
            entry = {"current": _np(U.synapse.current), "spike": _np(U.synapse.spike)}
            if syn == "double":
                entry["pos"], entry["neg"] = _np(U.synapse.pos_current), _np(U.synapse.neg_current)
            log[t] = entry
            sc_exp = _shifted(log, t0, t, ksel, fsel, desc, "current", expand)
            ss_exp = _shifted(log, t0, t, ksel, fsel, desc, "spike", expand)
            out_exp = contract(sc_exp)
            if bn is not None:
                out_exp = out_exp + (bn[None, :, None] if conn == "conv" else bn[None])
            ctx.case(f"{tag}/step/B{B}/bias{int(desc['bias'])}/{'start' if t - t0 < desc['K'] else 'steady'}")
            ctx.count("delayed_steps_checked")
            got = _np(outD).reshape(out_exp.shape)
            if not np.allclose(got, out_exp, rtol=rtol, atol=atol):
                grid = "ongrid" if not fsel.any() else "offgrid"
                return ctx.violation(f"{conn}.{syn}.delayed_output.{grid}.{'float64' if f64 else 'float32'}",
                                     f"step {t}: delayed output differs from the shifted undelayed contributions", rdesc,
                                     {"max_err": float(np.abs(got - out_exp).max()), "dt": dt, "tol": desc["tol"]})
            sc, ss = _np(D.syncurrent), _np(D.synspike)
            full = np.broadcast_shapes(sc_exp.shape, (B,) + sc_exp.shape[1:])
            if tuple(sc.shape) != tuple(full) or not np.allclose(sc, np.broadcast_to(sc_exp, full), rtol=rtol, atol=atol):
                return ctx.violation(f"{conn}.{syn}.syncurrent_view", f"step {t}: syncurrent (shape {sc.shape}) differs from the shifted currents", rdesc)
            if tuple(ss.shape) != tuple(full) or not np.array_equal(ss.astype(bool), np.broadcast_to(ss_exp, full).astype(bool)):
                return ctx.violation(f"{conn}.{syn}.synspike_view", f"step {t}: synspike (shape {ss.shape}) differs from the shifted spikes", rdesc)
            # the connection without a delay parameter is the zero-shift member of the family: selector of zeros in the same
            # layout, views equal to the synapse's present values
            ctx.count("undelayed_view_checks")
            usel = U.selector
            if usel is not None and (tuple(usel.shape) != tuple(D.selector.shape) or bool((usel != 0).any())):
                return ctx.violation(f"{conn}.{syn}.undelayed_selector", f"selector of the undelayed connection: shape {tuple(usel.shape)} "
                                     f"(delayed: {tuple(D.selector.shape)}), nonzero={bool((usel != 0).any())}", rdesc)
            if not torch.equal(U.syncurrent, U.synapse.current) or not torch.equal(U.synspike, U.synapse.spike):
                return ctx.violation(f"{conn}.{syn}.undelayed_views_ne_present", "syncurrent / synspike of an undelayed connection differ "
                                     "from the synapse's present current / spikes", rdesc)
            if Z is not None:
                outZ = Z(*args)
                ctx.count("steps_of_connections_built_with_zero_maximum_delay")
                if tuple(outZ.shape) != tuple(outU.shape) or not np.allclose(_np(outZ), _np(outU), rtol=rtol, atol=atol):
                    return ctx.violation(f"{conn}.{syn}.zero_maximum_delay_ne_undelayed.output", "a connection built with delay=0.0 differs from the undelayed one", rdesc)
                for vn in ("syncurrent", "synspike"):
                    vz, vu = getattr(Z, vn), getattr(U, vn)
                    if tuple(vz.shape) != tuple(vu.shape) or not torch.equal(vz, vu):
                        return ctx.violation(f"{conn}.{syn}.zero_maximum_delay_ne_undelayed.{vn}",
                                             f"{vn} of a connection built with delay=0.0 has shape {tuple(vz.shape)}, the undelayed one {tuple(vu.shape)}"
                                             + ("" if tuple(vz.shape) != tuple(vu.shape) else " (values differ)"), rdesc)
            if desc["mode"] == "zero":
                ctx.count("zero_delay_steps")
                if not np.allclose(_np(outD), _np(outU), rtol=rtol, atol=atol):
                    return ctx.violation(f"{conn}.{syn}.zero_delay_ne_undelayed", "all-zero delays differ from the undelayed connection", rdesc)
        except Exception as e:  # noqa: BLE001
            return ctx.violation(ctx.exc_signature(e, f"{conn}.{syn}.{ev}"), f"{type(e).__name__}: {str(e)[:160]}", rdesc)
