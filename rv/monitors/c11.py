"""C11 - batch samples never interact: a batch run equals independent single-sample runs.

M-rel (2-safety): a component built with batch size B is stepped next to B twins built with batch
size 1 and identical parameters; sample b of every output / state / history tensor must equal twin b's.
Trainers: with batch_reduction=sum, the accumulated update of a batched step equals the sum of the
per-sample steps.
"""

from __future__ import annotations

import numpy as np
import torch

import inferno
from inferno import neural, learn

from rv import factory as fac
from rv import trainers as tr

KINDS = ["neuron", "synapse", "connection", "layer", "trainer"]


def generate(ctx):
    rng = ctx.rng
    th = ctx.tier == "thorough"
    for i in range(1500 if th else 60):
        kind = KINDS[i % len(KINDS)]
        d = {"kind": kind, "B": rng.randint(2, 5), "dt": rng.choice([1.0, 0.5, 1.3, 0.25]), "T": rng.randint(8, 25),
             "seed": rng.randrange(1 << 30), "dtype": "float64"}
        # "for all batch sizes": also batch sizes reached through the batchsz setter (built at another size, then resized)
        d["resize_from"] = rng.choice([None, None, 1, d["B"] + 2, max(1, d["B"] - 1)]) if kind in ("neuron", "synapse", "connection") else None
        d["warm"] = rng.choice([0, 0, 3])
        d["clear_at"] = rng.choice([None, None, 3, 6])      # clear() on the batched component and on every twin, mid-run
        if kind == "neuron":
            d.update(cls=fac.NEURONS[(i // len(KINDS)) % 8], shape=list(rng.choice([(3,), (2, 2)])), lock=rng.random() < 0.8)
            if rng.random() < 0.4:
                d["B"] = d["shape"][0]        # a batch as large as the group's first dimension (shape coincidences)
                d["resize_from"] = None if d["resize_from"] == d["B"] else d["resize_from"]
        elif kind == "synapse":
            d.update(syn=fac.SYNAPSES[(i // len(KINDS)) % 4], delay=rng.choice([0, 2, 3]), interp=rng.choice(["previous", "nearest"]),
                     inplace=rng.random() < 0.5, shape=list(rng.choice([(3,), (2, 2)])))
        elif kind == "connection":
            d.update(conn=fac.CONNECTIONS[(i // len(KINDS)) % 4], syn=rng.choice(fac.SYNAPSES), delay=rng.choice([None, 2, 3]),
                     bias=rng.random() < 0.5)
        elif kind == "layer":
            d.update(layer=["serial", "biclique", "recurrent"][(i // len(KINDS)) % 3], neuron=rng.choice(fac.NEURONS),
                     syn=rng.choice(fac.SYNAPSES), delay=rng.choice([None, 2]), combine=rng.choice(["sum", "mean", "max"]),
                     freeze_via=["eval", "kwargs"][(i // (3 * len(KINDS))) % 2],
                     neuron2=rng.choice(["LIF", "ALIF", "GLIF2", "Izhikevich", "AdEx"]))
            if d["freeze_via"] == "kwargs":
                d["neuron2"] = rng.choice(["ALIF", "GLIF2", "Izhikevich", "AdEx"])     # something to freeze
            d["dtype"] = "float32"
        else:
            d.update(trainer=tr.TRAINERS[(i // len(KINDS)) % len(tr.TRAINERS)], conn=rng.choice(["dense", "direct", "lateral", "conv"]),
                     delay=rng.choice([None, 2, 2]), T=rng.randint(5, 10), signs=rng.randrange(4), trace_mode=rng.choice(["cumulative", "nearest"]),
                     delayed=rng.random() < 0.6,
                     # the sum reduction (and every hyper-parameter) given for the cell only; the trainer-wide defaults differ
                     per_cell=rng.random() < 0.5, sumfn=["torch", "inferno.sum", "inferno.nansum"][(i // len(KINDS)) % 3])
            if "Kernel" in d["trainer"] and rng.random() < 0.6:
                d["kernel"] = "osc"       # user kernel whose sign changes with the time difference: samples can pull opposite ways
            d["dtype"] = "float32"
        yield d
    for i in range(60 if th else 6):
        yield {"kind": "homeostasis", "B": rng.randint(2, 4), "T": rng.randint(4, 8), "seed": rng.randrange(1 << 30),
               "param": ["weight", "bias", "delay"][i % 3], "reduction": rng.choice(["sum", "sum", "mean"]),
               "conn": rng.choice(["dense", "direct", "lateral"]), "plasticity": rng.choice([0.1, -0.05, 0.3]),
               "target": rng.choice([0.2, 0.5, 0.8])}
    # delay-aware training on every connection type (the trainer reads per-synapse delayed presynaptic histories per sample)
    for tname in ("STDP", "TripletSTDP", "MSTDP", "KernelSTDP"):
        for conn in (["conv", "dense", "direct", "lateral"] if th else ["conv", rng.choice(["dense", "direct", "lateral"])]):
            yield {"kind": "trainer", "B": rng.randint(2, 4), "dt": rng.choice([1.0, 0.5]), "T": rng.randint(6, 10),
                   "seed": rng.randrange(1 << 30), "dtype": "float32", "resize_from": None, "warm": 0, "clear_at": None,
                   "trainer": tname, "conn": conn, "delay": 2, "delayed": True, "signs": rng.randrange(4),
                   "trace_mode": rng.choice(["cumulative", "nearest"]), "per_cell": rng.random() < 0.5,
                   **({"kernel": "osc"} if tname == "KernelSTDP" else {}), "sumfn": rng.choice(["torch", "inferno.sum", "inferno.nansum"])}


def _np(t):
    return t.detach().to(torch.float64).numpy()


def _homeostasis(ctx, desc):
    """homeostatic plasticity: the parts of a batched step are the configured reduction of the per-sample parts"""
    from inferno.extra import ExactNeuron
    B, param, red = desc["B"], desc["param"], desc["reduction"]
    R = {"sum": torch.sum, "mean": torch.mean}[red]

    def build(b):
        conn = fac.make_connection(desc["conn"], 1.0, syn="delta", B=b, delay=2.0, bias=True, nin=3, nout=2)
        fac.randomize(conn, torch.Generator().manual_seed(desc["seed"]), delay_steps=2, dt=1.0)
        neuron = ExactNeuron(conn.outshape, 1.0, rest_v=-60.0, thresh_v=-50.0, batch_size=b)
        layer = neural.Serial(conn, neuron)
        conn.updater = conn.defaultupdater()
        trn = learn.LinearHomeostasis(desc["plasticity"], desc["target"], param, batch_reduction=R)
        trn.register_cell("c", layer.cell)
        return conn, layer, trn

    cb, lb, tb = build(B)
    singles = [build(1) for _ in range(B)]
    g = torch.Generator().manual_seed(desc["seed"] + 1)

    def parts(conn):
        acc = getattr(conn.updater, param)
        ref = getattr(conn, param)
        z = torch.zeros_like(ref)
        out = (z if acc.pos is None else acc.pos.detach().clone()), (z if acc.neg is None else acc.neg.detach().clone())
        conn.updater.clear()
        return out

    for t in range(desc["T"]):
        pre = torch.rand((B,) + tuple(cb.inshape), generator=g) < 0.5
        post = torch.rand((B,) + tuple(cb.outshape), generator=g) < torch.rand((B,) + tuple(cb.outshape), generator=g)
        lb(pre, neuron_kwargs={"override": post})
        tb()
        pb, nb_ = parts(cb)
        ps, ns = [], []
        for b, (c1, l1, t1) in enumerate(singles):
            l1(pre[b:b + 1], neuron_kwargs={"override": post[b:b + 1]})
            t1()
            p1, n1 = parts(c1)
            ps.append(p1)
            ns.append(n1)
        ctx.case(f"homeostasis/{param}/{desc['conn']}/{red}/B{B}")
        ctx.count("homeostasis_batched_steps_checked")
        for side, got, each in (("potentiating", pb, ps), ("depressing", nb_, ns)):
            want = R(torch.stack(each, 0), 0)
            if tuple(got.shape) != tuple(want.shape) or not torch.allclose(got, want, rtol=1e-5, atol=1e-6):
                return ctx.violation(f"trainer.LinearHomeostasis.{param}.batched_part_ne_reduction_of_per_sample_parts.{red}",
                                     f"step {t}: the {side} part of a batched step on '{param}' is not the {red} of the per-sample parts", desc,
                                     {"max_err": float((got - want).abs().max()) if tuple(got.shape) == tuple(want.shape) else None})


def _per_sample_inputs(g, B, shape, T, p_levels, as_bool=False, scale=1.0):
    """per-sample very different drives: sample 0 silent, sample 1 saturated, others random"""
    xs = []
    for t in range(T):
        x = torch.zeros((B,) + tuple(shape), dtype=torch.float64)
        for b in range(B):
            if b == 0:
                continue
            if b == 1:
                x[b] = 1.0
            else:
                x[b] = (torch.rand(tuple(shape), generator=g) < p_levels[b % len(p_levels)]).double()
        xs.append(x.bool() if as_bool else x * scale)
    return xs


def _cmp(ctx, desc, what, batched, singles, step, exact=False, rtol=1e-9, atol=1e-10):
    """batched: tensor with batch axis `ax` ; singles: list of B tensors with a size-1 batch axis"""
    for b, s in enumerate(singles):
        a = batched[b] if isinstance(batched, (list, tuple)) else batched
        ctx.count("sample_comparisons")
        ok = (a.shape == s.shape) and (bool(torch.equal(a, s)) if (exact or a.dtype == torch.bool)
                                       else bool(torch.allclose(a, s, rtol=rtol, atol=atol, equal_nan=True)))
        if not ok:
            ctx.violation(f"{desc['kind']}.{what}.sample_differs_from_single_run",
                          f"step {step}: sample {b} of the batched {what} differs from the batch-size-1 run", {**desc, "T": step + 1},
                          {"sample": b, "batched": a.tolist() if a.numel() < 40 else None, "single": s.tolist() if s.numel() < 40 else None})
            return False
    return True


def run_case(ctx, desc):
    kind = desc["kind"]
    if ctx.counters.get("sampled." + kind, 0) == 0:
        ctx.count("sampled." + kind)
        ctx.sample(desc)
    try:
        {"neuron": _neuron, "synapse": _synapse, "connection": _connection, "layer": _layer, "trainer": _trainer,
         "homeostasis": _homeostasis}[kind](ctx, desc)
    except inferno_errors() as e:  # noqa: BLE001
        ctx.violation(ctx.exc_signature(e, f"{kind}"), f"{type(e).__name__}: {str(e)[:160]}", desc)


def inferno_errors():
    return (RuntimeError, ValueError, TypeError, AttributeError, IndexError, KeyError)


def _neuron(ctx, desc):
    g = torch.Generator().manual_seed(desc["seed"])
    B, dt, shape = desc["B"], desc["dt"], tuple(desc["shape"])
    B0 = desc.get("resize_from")
    nb = fac.make_neuron(desc["cls"], shape, dt, B0 or B, dtype=torch.float64)
    if B0:
        # a group used at one batch size and re-used at another: the setter documents a reset to the resting state
        for _ in range(desc.get("warm", 0)):
            nb(torch.rand((B0,) + shape, generator=g, dtype=torch.float64) * 60)
        nb.batchsz = B
        ctx.count("resized_components")
    singles = [fac.make_neuron(desc["cls"], shape, dt, 1, dtype=torch.float64) for _ in range(B)]
    # learned adaptation: identical non-trivial values everywhere, frozen during the run
    attr = fac.ADAPTIVE.get(desc["cls"])
    if attr:
        a = torch.rand(getattr(nb, attr).shape, generator=g, dtype=torch.float64) * 2
        for n in [nb] + singles:
            setattr(n, attr, a.clone())
    xs = _per_sample_inputs(g, B, shape, desc["T"], [0.2, 0.5, 0.8], scale=40.0)
    kw = {"refrac_lock": desc["lock"]}
    if attr:
        kw["adapt"] = False
    for t, x in enumerate(xs):
        x = x + torch.randn(x.shape, generator=g, dtype=torch.float64) * 5 * (torch.arange(B).view(-1, *[1] * len(shape)) > 1)
        if t and desc.get("clear_at") == t:
            for n in [nb] + singles:
                n.clear()
            ctx.count("mid_run_clears")
        sb = nb(x, **kw)
        ss = [n(x[b:b + 1], **kw) for b, n in enumerate(singles)]
        ctx.case(f"neuron/{desc['cls']}/B{B}/lock{int(desc['lock'])}/dt{dt}/{'resized' if B0 else 'built'}")
        ctx.count("steps_checked")
        if not (_cmp(ctx, desc, "spikes", [sb[b:b + 1] for b in range(B)], ss, t)
                and _cmp(ctx, desc, "voltage", [nb.voltage[b:b + 1] for b in range(B)], [n.voltage for n in singles], t)
                and _cmp(ctx, desc, "refrac", [nb.refrac[b:b + 1] for b in range(B)], [n.refrac for n in singles], t)):
            return
    if attr:
        # the documented cross-sample coupling: ONE adapting step from the (identical) state reached above.  The learned adaptation
        # keeps its unbatched shape and is the configured batch reduction (default: mean) of what each sample alone would learn
        x = xs[-1] + torch.randn(xs[-1].shape, generator=g, dtype=torch.float64) * 5
        kw["adapt"] = True
        nb(x, **kw)
        for b, n in enumerate(singles):
            n(x[b:b + 1], **kw)
        got = getattr(nb, attr).detach()
        each = torch.stack([getattr(n, attr).detach() for n in singles], 0)
        ctx.count("adapting_steps_checked")
        if B == shape[0]:
            ctx.count("adapting_steps_with_batch_size_equal_to_first_neuron_dimension")
        if tuple(got.shape) != tuple(a.shape):
            return ctx.violation("neuron.adaptation.shape_after_batched_adapting_step",
                                 f"{attr} has shape {tuple(got.shape)} after an adapting step on a batch of {B}, expected {tuple(a.shape)}", desc)
        if not torch.allclose(got, each.mean(0), rtol=1e-9, atol=1e-10):
            return ctx.violation("neuron.adaptation.not_the_batch_reduction_of_per_sample_adaptations",
                                 f"{attr} after an adapting step differs from the mean of the per-sample results", desc,
                                 {"max_err": float((got - each.mean(0)).abs().max())})
        kw["adapt"] = False
        for n in singles:
            setattr(n, attr, got.clone())
        for t2 in range(3):
            x = xs[t2 % len(xs)] + torch.randn(xs[0].shape, generator=g, dtype=torch.float64) * 5
            sb = nb(x, **kw)
            ss = [n(x[b:b + 1], **kw) for b, n in enumerate(singles)]
            if not (_cmp(ctx, desc, "spikes", [sb[b:b + 1] for b in range(B)], ss, desc["T"] + 1 + t2)
                    and _cmp(ctx, desc, "voltage", [nb.voltage[b:b + 1] for b in range(B)], [n.voltage for n in singles], desc["T"] + 1 + t2)):
                return


def _mk_syn(desc, B):
    ctor = fac.synapse_ctor(desc["syn"], desc.get("interp", "previous"), 0.0, desc.get("inplace", False))
    s = ctor(tuple(desc["shape"]), desc["dt"], desc["delay"] * desc["dt"], B)
    s.to(torch.float64)
    return s


def _synapse(ctx, desc):
    g = torch.Generator().manual_seed(desc["seed"])
    B, dt, shape = desc["B"], desc["dt"], tuple(desc["shape"])
    B0 = desc.get("resize_from")
    sb = _mk_syn(desc, B0 or B)
    if B0:
        sb.batchsz = B
        ctx.count("resized_components")
    singles = [_mk_syn(desc, 1) for _ in range(B)]
    xs = _per_sample_inputs(g, B, shape, desc["T"], [0.2, 0.5, 0.8])
    for t, x in enumerate(xs):
        inj = torch.randn(x.shape, generator=g, dtype=torch.float64)
        args = (x, inj) if desc["syn"] == "deltaplus" else (x,)
        if t and desc.get("clear_at") == t:
            for m in [sb] + singles:
                m.clear()
            ctx.count("mid_run_clears")
        ob = sb(*args)
        os_ = [s(*(a[b:b + 1] for a in args)) for b, s in enumerate(singles)]
        ctx.case(f"synapse/{desc['syn']}/B{B}/delay{desc['delay']}/{'ip' if desc['inplace'] else 'oop'}/{'resized' if B0 else 'built'}")
        ctx.count("steps_checked")
        if not (_cmp(ctx, desc, "current", [ob[b:b + 1] for b in range(B)], os_, t)
                and _cmp(ctx, desc, "spike", [sb.spike[b:b + 1] for b in range(B)], [s.spike for s in singles], t)):
            return
        # full history tensors (ring contents; same number of pushes => same pointer)
        recs = [r for r in ("spike_", "current_", "pos_current_", "neg_current_") if isinstance(getattr(sb, r, None), inferno.RecordTensor)]
        for r in recs:
            hb = getattr(sb, r)
            if any(getattr(s, r).pointer != hb.pointer for s in singles):
                return ctx.violation("synapse.history.pointer", f"{r}: write positions differ between batched and single runs", desc)
            if not _cmp(ctx, desc, f"history.{r}", [hb.value[:, b:b + 1] for b in range(B)], [getattr(s, r).value for s in singles], t):
                return
        if desc["delay"]:
            sel = torch.rand((B,) + shape, generator=g, dtype=torch.float64) * desc["delay"] * dt
            sel = (sel / dt).round() * dt if t % 2 else sel
            cb = sb.current_at(sel)
            if not _cmp(ctx, desc, "current_at", [cb[b:b + 1] for b in range(B)], [s.current_at(sel[b:b + 1]) for b, s in enumerate(singles)], t):
                return


def _connection(ctx, desc):
    g = torch.Generator().manual_seed(desc["seed"])
    B, dt = desc["B"], desc["dt"]
    delay = None if desc["delay"] is None else desc["delay"] * dt
    mk = lambda b: fac.make_connection(desc["conn"], dt, syn=desc["syn"], B=b, delay=delay, bias=desc["bias"], dtype=torch.float64)
    B0 = desc.get("resize_from")
    cb = mk(B0 or B)
    if B0:
        cb.batchsz = B
        ctx.count("resized_components")
    fac.randomize(cb, torch.Generator().manual_seed(desc["seed"] + 7), delay_steps=desc["delay"], dt=dt)
    singles = [mk(1) for _ in range(B)]
    for s in singles:
        fac.copy_params(cb, s)
    xs = _per_sample_inputs(g, B, cb.inshape, desc["T"], [0.2, 0.5, 0.8])
    for t, x in enumerate(xs):
        inj = torch.randn(x.shape, generator=g, dtype=torch.float64)
        args = (x, inj) if desc["syn"] == "deltaplus" else (x,)
        if t and desc.get("clear_at") == t:
            for m in [cb] + singles:
                m.clear()
            ctx.count("mid_run_clears")
        ob = cb(*args)
        os_ = [s(*(a[b:b + 1] for a in args)) for b, s in enumerate(singles)]
        ctx.case(f"connection/{desc['conn']}/{desc['syn']}/B{B}/delay{desc['delay']}/bias{int(desc['bias'])}/{'resized' if B0 else 'built'}")
        ctx.count("steps_checked")
        if not (_cmp(ctx, desc, "output", [ob[b:b + 1] for b in range(B)], os_, t)
                and _cmp(ctx, desc, "syncurrent", [cb.syncurrent[b:b + 1] for b in range(B)], [s.syncurrent for s in singles], t)
                and _cmp(ctx, desc, "synspike", [cb.synspike[b:b + 1] for b in range(B)], [s.synspike for s in singles], t)):
            return


def _mk_layer(desc, B):
    from rv.monitors import c17
    d = {"kind": desc["layer"], "dt": desc["dt"], "B": B, "seed": desc["seed"], "neuron": desc["neuron"], "neuron2": desc.get("neuron2", "LIF"),
         "syn": desc["syn"], "delay": desc["delay"], "bias": False, "conn": "dense", "transform": None, "conns": ["dense", "direct"],
         "nneurons": 2, "combine": desc["combine"], "post": False, "pre": False, "trainable_feedback": False, "transforms": False,
         "capture": False}
    if desc.get("freeze_via") == "kwargs":
        # adaptation frozen by routing adapt=False to every neuron group through the layer's keyword channel (non-default
        # component names), the neurons themselves stay in training mode
        d.update(names=True, nkw=True, nkw_all=True, nkw_dict={"adapt": False})
    parts = c17._Parts(d)
    for n in parts.neurons.values():
        if desc.get("freeze_via") != "kwargs" or not hasattr(n, "tc_adaptation") and not hasattr(n, "rc_adaptation"):
            n.eval()   # adaptation frozen (adapt=None follows the training flag)
    return d, parts, c17._layer(d, parts)


def _layer(ctx, desc):
    from rv.monitors import c17
    g = torch.Generator().manual_seed(desc["seed"])
    B = desc["B"]
    db, pb, lb = _mk_layer(desc, B)
    singles = [_mk_layer(desc, 1) for _ in range(B)]
    for b in range(B):
        for k in pb.conns:
            fac.copy_params(pb.conns[k], singles[b][1].conns[k])
    for t in range(desc["T"]):
        if desc["layer"] == "biclique":
            x = {k: (_per_sample_inputs(g, B, c.inshape, 1, [0.3, 0.6, 0.9], as_bool=True)[0],) for k, c in pb.conns.items()}
            if t % 3 == 2:
                # documented: only the connections named in the inputs run on that call - here a single one
                x = {k: x[k] for k in sorted(x)[:1]}
                ctx.count("single_connection_biclique_steps")
            xs = [{k: (v[0][b:b + 1],) for k, v in x.items()} for b in range(B)]
        else:
            first = pb.conns["serial" if desc["layer"] == "serial" else "feedfwd"]
            x = (_per_sample_inputs(g, B, first.inshape, 1, [0.3, 0.6, 0.9], as_bool=True)[0],)
            xs = [(x[0][b:b + 1],) for b in range(B)]
        ob, _ = c17._step_layer(db, lb, x)
        os_ = [c17._step_layer(singles[b][0], singles[b][2], xs[b])[0] for b in range(B)]
        ctx.case(f"layer/{desc['layer']}/{desc['neuron']}/{desc['syn']}/B{B}/delay{desc['delay']}")
        ctx.count("steps_checked")
        for k in ob:
            if not _cmp(ctx, desc, f"output.{k}", [ob[k][b:b + 1] for b in range(B)], [o[k] for o in os_], t, rtol=1e-5, atol=1e-5):
                return
        for k, n in pb.neurons.items():
            if not _cmp(ctx, desc, f"voltage.{k}", [n.voltage[b:b + 1] for b in range(B)], [s[1].neurons[k].voltage for s in singles], t,
                        rtol=1e-5, atol=1e-4):
                return


def _trainer(ctx, desc):
    g = torch.Generator().manual_seed(desc["seed"])
    B = desc["B"]
    from rv.monitors import c08
    a, b = c08.SIGNS[desc.get("signs", 0)]
    hyper = {"lr_a": a, "lr_b": b, "trace_mode": desc.get("trace_mode", "cumulative"),
             "delayed": bool(desc.get("delayed")) and bool(desc["delay"]),      # the delay-aware mode of the trainers that have one
             "kernel": desc.get("kernel")}
    if desc.get("kernel"):
        ctx.count("trainer_cases_with_sign_changing_user_kernel")
    # "a sum reduction": torch's, or one of the library's own dimension reducers documented as sums
    from inferno import functional as inff
    sumfn = {"torch": torch.sum, "inferno.sum": inff.sum, "inferno.nansum": inff.nansum}[desc.get("sumfn", "torch")]
    if desc.get("sumfn", "torch") != "torch":
        ctx.count("trainer_cases_with_library_sum_reducers")
    hb = tr.Harness(desc["trainer"], desc["conn"], dt=desc["dt"], B=B, delay_steps=desc["delay"], seed=desc["seed"],
                    batch_reduction=sumfn, hyper=hyper, per_cell=bool(desc.get("per_cell")))
    hs = [tr.Harness(desc["trainer"], desc["conn"], dt=desc["dt"], B=1, delay_steps=desc["delay"], seed=desc["seed"],
                     batch_reduction=sumfn, hyper=hyper, per_cell=bool(desc.get("per_cell"))) for _ in range(B)]
    if desc.get("per_cell"):
        ctx.count("trainer_cases_with_cell_level_reduction")
    for h in hs:
        fac.copy_params(hb.conn, h.conn)
    for t in range(desc["T"]):
        pre = _per_sample_inputs(g, B, hb.conn.inshape, 1, [0.3, 0.6, 0.9], as_bool=True)[0]
        post = _per_sample_inputs(g, B, hb.conn.outshape, 1, [0.6, 0.3, 0.8], as_bool=True)[0]
        post[0], post[1] = post[1].clone(), torch.zeros_like(post[1])   # decorrelate the silent / saturated samples
        reward = torch.randn(B, generator=g)
        pb_, nb_ = hb.step_parts(pre, post, reward)
        ps = [h.step_parts(pre[b:b + 1], post[b:b + 1], reward[b:b + 1]) for b, h in enumerate(hs)]
        ctx.case(f"trainer/{desc['trainer']}/{desc['conn']}/B{B}/delay{desc['delay']}{'T' if hyper['delayed'] else 'F'}/signs{desc.get('signs', 0)}")
        ctx.count("steps_checked")
        ctx.count("trainer_steps_checked")
        for name, whole, parts in (("potentiation", pb_, [p[0] for p in ps]), ("depression", nb_, [p[1] for p in ps])):
            tot = sum(parts)
            if not torch.allclose(whole, tot, rtol=1e-4, atol=1e-5):
                return ctx.violation(f"trainer.{desc['trainer']}.batched_{name}_ne_sum_of_samples",
                                     f"step {t}: batched {name} differs from the sum of per-sample steps (batch_reduction=sum)",
                                     {**desc, "T": t + 1}, {"max_err": float((whole - tot).abs().max())})
