"""C05 - connections compute their documented linear map (dense, direct, lateral, conv2d).

M-model (reference operators F.linear / masked matmul / F.conv2d on injected real-valued currents)
+ M-inv (lateral diagonal after every mutating call).
"""

from __future__ import annotations

import itertools
import math

import numpy as np
import torch
import torch.nn.functional as F

import inferno
from inferno.neural import LinearDense, LinearDirect, LinearLateral, Conv2D, DeltaPlusCurrent, Clamping, Normalization
from inferno import functional as inff


def _conv_ok(h, w, kh, kw, s, p, d):
    return (h + 2 * p - d * (kh - 1) - 1) >= 0 and (w + 2 * p - d * (kw - 1) - 1) >= 0


def generate(ctx):
    rng = ctx.rng
    th = ctx.tier == "thorough"
    for _ in range(900 if th else 45):
        kind = rng.choice(["dense", "direct", "lateral"])
        ish = rng.choice([(3,), (2, 3), (2, 1, 2), (5,), (1,)])
        osh = rng.choice([(2,), (2, 2), (4,), (1,), (3, 1)])
        yield {"part": "linear", "kind": kind, "inshape": list(ish), "outshape": list(osh), "bias": rng.random() < 0.5,
               "B": rng.randint(1, 4), "steps": rng.randint(1, 3), "seed": rng.randrange(1 << 30),
               # with per-synapse delays the synaptic data have the per-output form (B x out x in): hold the input constant for
               # longer than the longest delay and the delayed map is the undelayed one
               "delay_steps": rng.choice([None, None, 2, 3]), "via_init": rng.random() < 0.4, "zero_delay": rng.random() < 0.2}
    if th:
        grid = [(hw, hw, c, f, kh, kw, s, p, d) for hw in range(3, 10) for c in (1, 2, 3) for f in (1, 2, 3)
                for kh in (1, 2, 3) for kw in (1, 2, 3) for s in (1, 2, 3) for p in (0, 1, 2) for d in (1, 2)
                if _conv_ok(hw, hw, kh, kw, s, p, d)]
        for i, gq in enumerate(grid):
            if i % ctx.nshards == ctx.shard:
                yield {"part": "conv", "geom": list(gq), "bias": i % 2 == 0, "B": 1 + i % 3, "seed": i}
    for _ in range(300 if th else 55):
        while True:
            h, w = rng.randint(3, 9), rng.randint(3, 9)
            kh, kw = rng.randint(1, 3), rng.randint(1, 3)
            s, p, d = rng.randint(1, 3), rng.randint(0, 2), rng.randint(1, 2)
            if _conv_ok(h, w, kh, kw, s, p, d):
                break
        desc = {"part": "conv", "geom": [h, w, rng.randint(1, 3), rng.randint(1, 3), kh, kw, s, p, d],
                "bias": rng.random() < 0.5, "B": rng.randint(1, 4), "seed": rng.randrange(1 << 30),
                "stride2": rng.choice([None, [rng.randint(1, 2), rng.randint(1, 3)]]),
                # per-synapse delays (the per-filter synaptic layout): input held constant past the longest delay
                "delay_steps": rng.choice([None, None, None, 1, 2]), "zero_delay": rng.random() < 0.2,
                # memory layout of the assigned weight (values are what counts, not strides)
                "weight_layout": rng.choice(["contiguous", "contiguous", "channels_last", "transposed_view", "expanded"]),
                "via_init": rng.random() < 0.25}
        # rectangular padding / dilation (kept only when the output stays non-empty)
        p2, d2 = [rng.randint(0, 2), rng.randint(0, 2)], [rng.randint(1, 2), rng.randint(1, 2)]
        if rng.random() < 0.5 and (h + 2 * p2[0] - d2[0] * (kh - 1) - 1) >= 0 and (w + 2 * p2[1] - d2[1] * (kw - 1) - 1) >= 0:
            desc["pad2"], desc["dil2"] = p2, d2
        yield desc
    for _ in range(500 if th else 40):
        ops = [rng.choice(["set_weight", "set_delay", "update", "clamp", "normalize", "forward", "set_weight_param",
                           "init_weight_inplace", "bump_weight_inplace", "init_delay_inplace"])
               for _ in range(rng.randint(4, 14))]
        yield {"part": "lateral_inv", "n": rng.choice([2, 3, 5]), "delay": rng.choice([True, True, False, "zero"]), "ops": ops, "via_init": rng.random() < 0.4,
               "seed": rng.randrange(1 << 30)}


def run_case(ctx, desc):
    if ctx.counters.get("sampled." + desc["part"], 0) == 0:
        ctx.count("sampled." + desc["part"])
        ctx.sample(desc)
    {"linear": _linear, "conv": _conv, "lateral_inv": _lateral_inv}[desc["part"]](ctx, desc)


def _syn():
    return DeltaPlusCurrent.partialconstructor(1.0)


def _drive(conn, x):
    """zero spikes + injected real currents: the synaptic current becomes like_synaptic(x)"""
    zeros = torch.zeros_like(x)
    return conn(zeros, x)


def _helpers(ctx, conn, x, out_nobias, desc, tag):
    """reshaping helpers: round trip and receptive views tied to the forward map"""
    syn = conn.like_synaptic(x)
    back = conn.like_input(syn)
    ctx.count("helper_checks")
    if tuple(back.shape) != tuple(x.shape):
        return ctx.violation(f"{tag}.like_input.shape", f"{tuple(back.shape)} vs {tuple(x.shape)}", desc)
    read = ~torch.isnan(back)
    if not torch.allclose(back[read], x[read], rtol=1e-9, atol=1e-12):
        return ctx.violation(f"{tag}.like_input_of_like_synaptic", "mapping to synaptic layout and back does not return the input", desc)
    if tag == "conv":
        cnt = conn.like_input(torch.ones_like(syn))
        fold = F.fold(torch.ones_like(syn), (conn.height, conn.width), conn.kernel, dilation=conn.dilation,
                      padding=conn.padding, stride=conn.stride)
        if not torch.equal(read, fold > 0):
            return ctx.violation("conv.like_input.read_positions", "positions recovered differ from the positions the connection reads", desc)
    else:
        if not bool(read.all()):
            return ctx.violation(f"{tag}.like_input.nan", "NaN at an input position the connection reads", desc)
    # the same round trip for spike-like (bool) and integer-typed data
    for dt_ in (torch.int64, torch.int32, torch.uint8, torch.bool):
        xi = (x.abs() * 3).to(dt_) if dt_ != torch.bool else (x > 0)
        bi = conn.like_input(conn.like_synaptic(xi))
        ctx.count("integer_helper_checks")
        if tuple(bi.shape) != tuple(xi.shape) or bi.dtype != xi.dtype or not torch.equal(bi[read], xi[read]):
            return ctx.violation(f"{tag}.like_input_of_like_synaptic.{str(dt_).replace('torch.', '')}",
                                 f"mapping {dt_} data to synaptic layout and back does not return it on the positions read", desc)
    W = conn.weight
    pre = conn.presyn_receptive(conn.syncurrent)
    post = conn.postsyn_receptive(out_nobias)
    B = x.shape[0]
    try:
        full_pre = torch.broadcast_shapes(tuple(pre.shape), (1,) + tuple(W.shape) + (1,))
        full_post = torch.broadcast_shapes(tuple(post.shape), (1,) + tuple(W.shape) + (1,))
    except RuntimeError as e:
        return ctx.violation(f"{tag}.receptive.not_broadcastable", f"receptive view does not broadcast against the weight: {e}", desc)
    if full_pre[0] != B or full_pre[1:1 + W.ndim] != tuple(W.shape) or full_post[0] != B or full_post[1:1 + W.ndim] != tuple(W.shape):
        return ctx.violation(f"{tag}.receptive.broadcast_shape", f"pre {tuple(pre.shape)} post {tuple(post.shape)} weight {tuple(W.shape)}", desc)
    # the per-output reduction of the postsynaptic view (what a bias-level learning rule produces) maps onto the bias
    red = post.mean(dim=-1).mean(dim=0)
    lb = conn.like_bias(red)
    ctx.count("bias_layout_checks")
    bshape = tuple(conn.bias.shape) if conn.biased else (int(red.numel()),)
    if tuple(lb.shape) != bshape or not torch.equal(lb.reshape(-1), red.reshape(-1)):
        return ctx.violation(f"{tag}.like_bias", f"like_bias maps {tuple(red.shape)} to {tuple(lb.shape)}, bias is {bshape}", desc)
    R = full_pre[-1]
    if full_post[-1] != R:
        return ctx.violation(f"{tag}.receptive.pre_post_receptive_axis", f"pre R={R} post R={full_post[-1]}", desc)
    # contraction of the presynaptic view with the weight over the non-output axes reproduces the forward map
    prod = pre * W.reshape((1,) + tuple(W.shape) + (1,))
    if tag == "direct":
        contracted = prod  # (B, N, 1): element-wise map
        ref = conn.postsyn_receptive(out_nobias)
    else:
        contracted = prod.sum(dim=tuple(range(2, 1 + W.ndim)), keepdim=True)
        ref = post
    if tuple(torch.broadcast_shapes(tuple(contracted.shape), tuple(ref.shape))) != tuple(contracted.shape) or not torch.allclose(
            contracted, ref.expand_as(contracted), rtol=1e-9, atol=1e-9):
        return ctx.violation(f"{tag}.receptive.contraction_ne_forward",
                             "presyn_receptive contracted with the weight differs from postsyn_receptive(forward output)", desc)
    return True


def _linear(ctx, desc):
    g = torch.Generator().manual_seed(desc["seed"])
    kind = desc["kind"]
    ish, osh = tuple(desc["inshape"]), tuple(desc["outshape"])
    B = desc["B"]
    try:
        K = desc.get("delay_steps")
        dl = float(K) if K else (0.0 if desc.get("zero_delay") else None)     # delay=0.0: a delay parameter that delays nothing
        ini = {}
        if desc.get("via_init"):
            # parameters given through the documented initialiser callables instead of assignment after construction
            ini = dict(weight_init=lambda x: torch.randn(x.shape, generator=g).to(x.dtype) + 1.5,
                       bias_init=lambda x: torch.randn(x.shape, generator=g).to(x.dtype),
                       delay_init=lambda x: torch.randint(0, (K or 0) + 1, x.shape, generator=g).to(x.dtype))
            ctx.count("initialiser_built_connections")
        if kind == "dense":
            conn = LinearDense(ish, osh, 1.0, synapse=_syn(), bias=desc["bias"], batch_size=B, delay=dl, **ini)
        elif kind == "direct":
            conn = LinearDirect(ish, 1.0, synapse=_syn(), bias=desc["bias"], batch_size=B, delay=dl, **ini)
            osh = ish
        else:
            conn = LinearLateral(ish, 1.0, synapse=_syn(), bias=desc["bias"], batch_size=B, delay=dl, **ini)
            osh = ish
        conn.to(torch.float64)
        if K:
            if not desc.get("via_init"):
                conn.delay = torch.randint(0, K + 1, conn.delay.shape, generator=g).to(torch.float64)
            ctx.count("delayed_linear_cases")
    except Exception as e:  # noqa: BLE001
        return ctx.violation(ctx.exc_signature(e, f"construct.{kind}"), f"{type(e).__name__}: {str(e)[:140]}", desc)
    nin, nout = math.prod(ish), math.prod(osh)
    if not desc.get("via_init"):
        Wv = torch.randn(conn.weight.shape, generator=g, dtype=torch.float64)
        if desc["seed"] % 3 == 0 and Wv.ndim == 2:
            Wv = Wv.t().contiguous().t()       # column-major storage of the same matrix
            ctx.count("linear_weights_assigned_in_other_memory_layouts")
        conn.weight = Wv
        if desc["bias"]:
            conn.bias = torch.randn(conn.bias.shape, generator=g, dtype=torch.float64)
    elif (conn.weight.numel() > 1 or kind != "lateral") and (
            bool((conn.weight == 0).all()) or (desc["bias"] and bool((conn.bias == 0).all()))):     # a 1 x 1 lateral weight is all mask
        return ctx.violation(f"{kind}.initialiser_ignored", "weight_init / bias_init had no effect", desc)
    ctx.case(f"linear/{kind}/in{len(ish)}d/out{len(osh)}d/bias{int(desc['bias'])}/B{B}")
    if tuple(conn.inshape) != ish or tuple(conn.outshape) != osh:
        return ctx.violation(f"{kind}.advertised_shape", f"inshape {conn.inshape} outshape {conn.outshape}", desc)
    xconst = torch.randn((B,) + ish, generator=g, dtype=torch.float64)
    for si in range(desc["steps"] + (K or 0)):
        x = xconst if K else torch.randn((B,) + ish, generator=g, dtype=torch.float64)
        try:
            out = _drive(conn, x)
            if K and si < K:
                continue      # the delay window still holds the resting state
        except Exception as e:  # noqa: BLE001
            return ctx.violation(ctx.exc_signature(e, f"forward.{kind}"), f"{type(e).__name__}: {str(e)[:140]}", desc)
        W, b = conn.weight.detach(), (conn.bias.detach() if desc["bias"] else None)
        xf = x.reshape(B, nin)
        if kind == "dense":
            ref = F.linear(xf, W, b)
            nob = F.linear(xf, W, None)
        elif kind == "direct":
            ref = xf * W + (b if b is not None else 0)
            nob = xf * W
        else:
            Wm = W * (1 - torch.eye(nin, dtype=torch.float64))
            ref = xf @ Wm.t() + (b if b is not None else 0)
            nob = xf @ Wm.t()
            if bool((torch.diagonal(W) != 0).any()):
                return ctx.violation("lateral.self_weight_nonzero", "diagonal of the lateral weight is not zero", desc)
        ctx.count("forward_checks")
        if tuple(out.shape) != (B,) + osh:
            return ctx.violation(f"{kind}.output_shape", f"{tuple(out.shape)} expected {(B,) + osh}", desc)
        if not torch.allclose(out.reshape(B, nout), ref, rtol=1e-9, atol=1e-9):
            return ctx.violation(f"{kind}.linear_map", "output differs from the documented linear map", desc,
                                 {"max_err": float((out.reshape(B, nout) - ref).abs().max())})
        try:
            if _helpers(ctx, conn, x, nob.reshape((B,) + osh), desc, kind) is not True:
                return
        except Exception as e:  # noqa: BLE001
            return ctx.violation(ctx.exc_signature(e, f"helpers.{kind}"), f"{type(e).__name__}: {str(e)[:140]}", desc)
    if desc["seed"] % 2 == 0:
        # the same connection at another batch size (the documented batchsz setter): the advertised batched shapes follow, and
        # the map is the same map of the new batch (an undelayed delta synapse carries nothing over)
        B2 = B + 1 if desc["seed"] % 4 == 0 else max(B - 1, 1) if B > 1 else 3
        ctx.count("linear_forwards_at_a_reassigned_batch_size")
        try:
            before = (tuple(conn.batched_inshape), tuple(conn.batched_outshape))
            conn.batchsz = B2
            adv = (tuple(conn.batched_inshape), tuple(conn.batched_outshape))
            x2 = torch.randn((B2,) + ish, generator=g, dtype=torch.float64)
            for _ in range((K or 0) + 1):
                out2 = _drive(conn, x2)
        except Exception as e:  # noqa: BLE001
            return ctx.violation(ctx.exc_signature(e, f"rebatched.{kind}"), f"{type(e).__name__}: {str(e)[:140]}", desc)
        if before != ((B,) + ish, (B,) + osh) or adv != ((B2,) + ish, (B2,) + osh):
            return ctx.violation(f"{kind}.advertised_batched_shape", f"batched shapes {before} at batch size {B}, {adv} after batchsz = {B2}", desc)
        W, b = conn.weight.detach(), (conn.bias.detach() if desc["bias"] else None)
        xf = x2.reshape(B2, nin)
        if kind == "dense":
            ref = F.linear(xf, W, b)
        elif kind == "direct":
            ref = xf * W + (b if b is not None else 0)
        else:
            ref = xf @ (W * (1 - torch.eye(nin, dtype=torch.float64))).t() + (b if b is not None else 0)
        if tuple(out2.shape) != (B2,) + osh or not torch.allclose(out2.reshape(B2, nout), ref, rtol=1e-9, atol=1e-9):
            return ctx.violation(f"{kind}.linear_map_after_batchsz_assignment", f"output {tuple(out2.shape)} after batchsz = {B2} differs from the documented map", desc)


def _conv(ctx, desc):
    h, w, c, f, kh, kw, s, p, d = desc["geom"]
    stride = tuple(desc["stride2"]) if desc.get("stride2") else s
    if desc.get("pad2"):
        p, d = tuple(desc["pad2"]), tuple(desc["dil2"])
    B = desc["B"]
    g = torch.Generator().manual_seed(desc["seed"])
    try:
        K = desc.get("delay_steps")
        ini = {}
        if desc.get("via_init"):
            # parameters through the documented initialiser callables (then no assignment after construction)
            ini = dict(weight_init=lambda x_: torch.randn(x_.shape, generator=g).to(x_.dtype) + 1.5,
                       bias_init=lambda x_: torch.randn(x_.shape, generator=g).to(x_.dtype),
                       delay_init=lambda x_: torch.randint(0, (K or 0) + 1, x_.shape, generator=g).to(x_.dtype))
            ctx.count("initialiser_built_conv_connections")
        zd = bool(desc.get("zero_delay")) and not K
        if zd:
            ctx.count("conv_built_with_zero_delay")      # documented: delay=0.0 is legal and "uses no delays"
        conn = Conv2D(h, w, c, f, 1.0, (kh, kw), stride=stride, padding=p, dilation=d, synapse=_syn(), bias=desc["bias"],
                      batch_size=B, delay=(float(K) if K else (0.0 if zd else None)), **ini)
        conn.to(torch.float64)
        if K:
            if not desc.get("via_init"):
                conn.delay = torch.randint(0, K + 1, conn.delay.shape, generator=g).to(torch.float64)
            ctx.count("delayed_conv_cases")
    except Exception as e:  # noqa: BLE001
        return ctx.violation(ctx.exc_signature(e, "construct.conv"), f"{type(e).__name__}: {str(e)[:140]}", desc)
    Wv = torch.randn(conn.weight.shape, generator=g, dtype=torch.float64)
    lay = desc.get("weight_layout", "contiguous")
    if lay == "channels_last":
        Wv = Wv.contiguous(memory_format=torch.channels_last)
    elif lay == "transposed_view":
        Wv = Wv.transpose(2, 3).contiguous().transpose(2, 3)          # same values and shape, kernel axes stored the other way round
    elif lay == "expanded":
        Wv = Wv[:, :1].expand(-1, c, -1, -1)                           # one channel's kernel shared by all channels (stride 0)
    if lay != "contiguous":
        ctx.count("conv_weights_assigned_in_other_memory_layouts")
    if desc.get("via_init"):
        if bool((conn.weight == 0).all()) or (desc["bias"] and bool((conn.bias == 0).all())):
            return ctx.violation("conv.initialiser_ignored", "weight_init / bias_init had no effect", desc)
    else:
        try:
            conn.weight = Wv
        except Exception as e:  # noqa: BLE001
            return ctx.violation(ctx.exc_signature(e, "assign_weight.conv"), f"{type(e).__name__}: {str(e)[:140]}", desc)
        if not torch.equal(conn.weight.detach(), Wv):
            return ctx.violation("conv.weight_setter_changed_values", f"weight assigned in layout {lay} reads back differently", desc)
        if desc["bias"]:
            conn.bias = torch.randn(conn.bias.shape, generator=g, dtype=torch.float64)
    x = torch.randn((B, c, h, w), generator=g, dtype=torch.float64)
    ctx.case(f"conv/h{h}w{w}/c{c}f{f}/k{kh}x{kw}/s{stride}/p{p}/d{d}/bias{int(desc['bias'])}")
    ref = F.conv2d(x, conn.weight.detach(), conn.bias.detach() if desc["bias"] else None, stride=stride, padding=p, dilation=d)
    nob = F.conv2d(x, conn.weight.detach(), None, stride=stride, padding=p, dilation=d)
    if tuple(conn.outshape) != tuple(ref.shape[1:]) or tuple(conn.inshape) != (c, h, w):
        return ctx.violation("conv.advertised_shape", f"outshape {conn.outshape} but a 2-D cross-correlation gives {tuple(ref.shape[1:])}", desc)
    try:
        for _ in range(K or 0):
            _drive(conn, x)          # fill the delay window with the same input
        out = _drive(conn, x)
    except Exception as e:  # noqa: BLE001
        return ctx.violation(ctx.exc_signature(e, "forward.conv"), f"{type(e).__name__}: {str(e)[:140]}", desc)
    ctx.count("forward_checks")
    ctx.count("conv_geometries")
    if tuple(out.shape) != tuple(ref.shape):
        return ctx.violation("conv.output_shape", f"{tuple(out.shape)} expected {tuple(ref.shape)}", desc)
    if not torch.allclose(out, ref, rtol=1e-9, atol=1e-9):
        return ctx.violation("conv.cross_correlation", "output differs from F.conv2d with the configured stride/padding/dilation", desc,
                             {"max_err": float((out - ref).abs().max())})
    try:
        _helpers(ctx, conn, x, nob, desc, "conv")
    except Exception as e:  # noqa: BLE001
        return ctx.violation(ctx.exc_signature(e, "helpers.conv"), f"{type(e).__name__}: {str(e)[:140]}", desc)


def _lateral_inv(ctx, desc):
    g = torch.Generator().manual_seed(desc["seed"])
    n = desc["n"]
    try:
        # delay: None (no delay parameter), 3.0, or 0.0 - documented as legal: the delay parameter exists, nothing is delayed yet
        ini = {}
        if desc.get("via_init"):
            ini = dict(weight_init=lambda x: torch.rand(x.shape, generator=g) + 0.5, delay_init=lambda x: torch.rand(x.shape, generator=g) + 0.2)
            if desc["seed"] % 2:
                # the in-place initialisers of torch.nn.init hand back the very tensor they were given
                ini = dict(weight_init=lambda x: torch.nn.init.constant_(x, 0.5), delay_init=lambda x: x.fill_(2.0))
                ctx.count("lateral_inplace_initialisers")
        conn = LinearLateral(n, 1.0, synapse=_syn(), delay=({True: 3.0, False: None, "zero": 0.0}[desc["delay"]]), batch_size=1, **ini)
        conn.updater = conn.defaultupdater()
    except Exception as e:  # noqa: BLE001
        return ctx.violation(ctx.exc_signature(e, "construct.lateral"), f"{type(e).__name__}: {str(e)[:140]}", desc)
    hooks = []

    def check(op, oi):
        ctx.count("lateral_diagonal_checks")
        if bool((torch.diagonal(conn.weight) != 0).any()):
            ctx.violation(f"lateral.self_weight_nonzero.after_{op}", f"nonzero self-weight after {op}", {**desc, "ops": desc["ops"][: oi + 1]})
            return False
        if desc["delay"] and bool((torch.diagonal(conn.delay) != 0).any()):
            ctx.violation(f"lateral.self_delay_nonzero.after_{op}", f"nonzero self-delay after {op}", {**desc, "ops": desc["ops"][: oi + 1]})
            return False
        return True

    if not check("construct", -1):
        return
    for oi, op in enumerate(desc["ops"]):
        ctx.case(f"lateral_inv/{op}/n{n}/delay{desc['delay']}")
        try:
            if op == "set_weight":
                conn.weight = torch.randn(n, n, generator=g) + 2.0
            elif op == "set_weight_param":
                conn.weight = torch.nn.Parameter(torch.rand(n, n, generator=g) + 0.5, requires_grad=False)
            elif op == "init_weight_inplace":
                conn.weight = torch.nn.init.uniform_(conn.weight, 0.1, 1.0)        # same parameter object, edited in place
                ctx.count("lateral_same_object_assignments")
            elif op == "bump_weight_inplace":
                conn.weight = conn.weight.add_(1.0)
                ctx.count("lateral_same_object_assignments")
            elif op == "init_delay_inplace":
                if desc["delay"]:
                    conn.delay = conn.delay.fill_(1.5)
                    ctx.count("lateral_same_object_assignments")
            elif op == "set_delay":
                if desc["delay"]:
                    conn.delay = torch.rand(n, n, generator=g) * 3.0 + 0.1
            elif op == "update":
                conn.updater.weight = (torch.rand(n, n, generator=g), torch.rand(n, n, generator=g) * 0.3)
                if desc["delay"]:
                    conn.updater.delay = (torch.rand(n, n, generator=g), None)
                conn.update()
            elif op == "clamp":
                hk = Clamping(conn, "weight", min=0.25, max=None)
                hk.register()
                hooks.append(hk)
                conn(torch.zeros(1, n), torch.randn(1, n, generator=g))
                hk.deregister()
            elif op == "normalize":
                hk = Normalization(conn, "weight", 1, 3.0, dim=-1)
                hk.register()
                hooks.append(hk)
                conn(torch.zeros(1, n), torch.randn(1, n, generator=g))
                hk.deregister()
            else:
                conn(torch.zeros(1, n), torch.randn(1, n, generator=g))
        except Exception as e:  # noqa: BLE001
            return ctx.violation(ctx.exc_signature(e, f"lateral.{op}"), f"{type(e).__name__}: {str(e)[:140]}",
                                 {**desc, "ops": desc["ops"][: oi + 1]})
        if not check(op, oi):
            return
