"""C14 - configuration-path independence: setters reach the same model as the constructor.

M-rel: object A is constructed with configuration c0 and moved to c1 by a random sequence of property
assignments; object B is constructed with c1 directly.  After EVERY assignment all public configuration
getters are read (the assigned one reports the new value, every other one is unchanged); at the end A and
B report the same configuration, size their internal records identically, and from a cleared state
produce equal outputs on the same inputs.
"""

from __future__ import annotations

import torch

import inferno
from inferno import neural, observe, RecordTensor, ShapedTensor

from rv import factory as fac

KINDS = ["neuron", "synapse", "connection", "reducer", "layer"]
DTS = [1.0, 0.5, 0.25, 2.0, 1.3, 0.7, 0.3]


def generate(ctx):
    rng = ctx.rng
    th = ctx.tier == "thorough"
    for i in range(2200 if th else 110):
        kind = KINDS[i % len(KINDS)]
        d = {"kind": kind, "seed": rng.randrange(1 << 30), "nassign": rng.randint(1, 6),
             # the component has already been run (and again between assignments) when its properties are assigned
             "used_before": rng.random() < 0.5}
        if kind == "neuron":
            d.update(cls=fac.NEURONS[(i // 5) % 8], c0={"dt": rng.choice(DTS), "batchsz": rng.randint(1, 3)})
        elif kind == "synapse":
            d.update(syn=fac.SYNAPSES[(i // 5) % 4], c0={"dt": rng.choice(DTS), "delay": rng.choice([0.0, 1.0, 2.0, 3.0]),
                                                          "batchsz": rng.randint(1, 3), "inplace": rng.random() < 0.5})
        elif kind == "connection":
            d.update(conn=fac.CONNECTIONS[(i // 5) % 4], syn=rng.choice(fac.SYNAPSES), delayed=rng.random() < 0.6,
                     c0={"dt": rng.choice(DTS), "batchsz": rng.randint(1, 3), "synapse": rng.choice(fac.SYNAPSES)})
            if d["delayed"]:
                # the connection's maximum delay, constructor argument on one twin and an assignment through the synapse on the
                # other (delay=0.0 is documented to still register a learned-delay parameter that delays nothing)
                d["c0"]["maxdelay"] = rng.choice([0.0, 0.0, 1.0, 2.0, 2.0, 3.0])
        elif kind == "reducer":
            d.update(red=rng.choice(["nearest", "cumulative", "event", "passthrough", "ema", "ca"]),
                     c0={"dt": rng.choice(DTS), "duration": rng.choice([0.0, 1.0, 2.0, 3.0]), "inplace": rng.random() < 0.5,
                         "inclusive": rng.random() < 0.5})
        else:
            d.update(neuron=rng.choice(fac.NEURONS), syn=rng.choice(fac.SYNAPSES), c0={"dt": rng.choice(DTS), "batchsz": rng.randint(1, 3)},
                     topology=rng.choice(["serial", "recurrent"]))
        # the assignment sequence (values drawn now so that the descriptor is self-contained)
        seq = []
        keys = [k for k in d["c0"]]
        cur = dict(d["c0"])
        for _ in range(d["nassign"]):
            k = rng.choice(keys + (["dtype"] if kind in ("neuron", "synapse", "connection", "reducer") else []))
            if k == "dt":
                v = rng.choice(DTS)
            elif k == "batchsz":
                v = rng.randint(1, 4)
            elif k == "maxdelay":
                v = rng.choice([0.0, 1.0, 2.0, 3.0, 4.0, 2.5, 0.7])
            elif k == "delay":
                v = rng.choice([0.0, 1.0, 2.0, 3.0, 4.0, 2.5, 0.7, 1.3, round(rng.uniform(0.0, 5.0), 3)])
            elif k == "duration":
                v = rng.choice([1.0, 2.0, 3.0, 5.0, 0.0, 2.5, 0.5, round(rng.uniform(0.0, 6.0), 3)])
            elif k in ("inplace", "inclusive"):
                v = rng.random() < 0.5
            elif k == "synapse":
                v = rng.choice(fac.SYNAPSES)
            else:
                v = "float64"
            if k in ("dt", "batchsz", "delay", "duration") and rng.random() < 0.2:
                # an assignment the setter documents as invalid comes first: it is refused, and a refused assignment leaves every
                # reported value (and the behaviour) as it was
                seq.append([k, {"dt": rng.choice([0.0, -1.0]), "batchsz": rng.choice([0, -2]), "delay": -1.0, "duration": -1.0}[k], "invalid"])
            if k in ("dt", "delay", "maxdelay", "duration") and cur.get(k) and rng.random() < 0.15:
                # a value a hair away from the current one (a configuration read back from a file, a product of two floats): it is
                # a different value, reported back as given, and may sit on the other side of a whole number of steps
                v = cur[k] * (1.0 + rng.choice([-1, 1]) * 5e-10)
                d["nudged"] = True
            cur[k] = v
            seq.append([k, v])
        d["seq"] = seq
        yield d


# ------------------------------------------------------------------------------------------
# component adapters: build(cfg), set(obj, key, value), observe(obj) -> reported config, records(obj), drive(obj, xs)
# ------------------------------------------------------------------------------------------

def _records(mod):
    out = {}
    for name, m in mod.named_modules():
        for attr, v in vars(m).items():
            if isinstance(v, RecordTensor):
                out[f"{name}.{attr}"] = {"recordsz": v.recordsz, "dt": v.dt, "duration": v.duration, "inclusive": v.inclusive,
                                         "dtype": str(v.value.dtype)}
            elif isinstance(v, ShapedTensor):
                # plain constrained state (voltage, refrac, adaptation, ...): its element type is part of what a setter must keep
                out[f"{name}.{attr}"] = {"dtype": str(v.value.dtype)}
    return out


class _Neuron:
    def __init__(self, d):
        self.d = d

    def build(self, c):
        return fac.make_neuron(self.d["cls"], (3,), c["dt"], c["batchsz"], dtype=(torch.float64 if c.get("dtype") else None))

    def set(self, o, k, v):
        if k == "dtype":
            o.to(torch.float64)
        else:
            setattr(o, k, v)

    def observe(self, o):
        return {"dt": o.dt, "batchsz": o.batchsz, "shape": tuple(o.shape), "batchedshape": tuple(o.batchedshape),
                "dtype": str(o.voltage.dtype), "voltage_shape": tuple(o.voltage.shape), "refrac_shape": tuple(o.refrac.shape)}

    def drive(self, o, g, T=6):
        o.clear()
        outs = []
        for _ in range(T):
            x = torch.rand(o.batchedshape, generator=g, dtype=torch.float64).to(o.voltage.dtype) * 60
            outs.append(o(x).clone())
            outs.append(o.voltage.clone())
        return outs


class _Synapse:
    def __init__(self, d):
        self.d = d

    def build(self, c):
        s = fac.synapse_ctor(self.d["syn"], "previous", 0.0, c["inplace"])((3,), c["dt"], c["delay"], c["batchsz"])
        if c.get("dtype"):
            s.to(torch.float64)
        return s

    def set(self, o, k, v):
        if k == "dtype":
            o.to(torch.float64)
        else:
            setattr(o, k, v)

    def observe(self, o):
        return {"dt": o.dt, "delay": o.delay, "batchsz": o.batchsz, "inplace": o.inplace, "shape": tuple(o.shape),
                "dtype": str(o.current.dtype), "current_shape": tuple(o.current.shape)}

    def drive(self, o, g, T=8):
        o.clear()
        outs = []
        for t in range(T):
            x = (torch.rand(o.batchedshape, generator=g) < 0.5).to(o.current.dtype)
            args = (x, torch.rand(o.batchedshape, generator=g, dtype=torch.float64).to(o.current.dtype)) if self.d["syn"] == "deltaplus" else (x,)
            outs.append(o(*args).clone())
            sel = torch.full(o.batchedshape, min(o.delay, 1.0 * o.dt), dtype=o.current.dtype)
            outs.append(o.current_at(sel).clone())
        return outs


class _Connection:
    def __init__(self, d):
        self.d = d

    def build(self, c):
        conn = fac.make_connection(self.d["conn"], c["dt"], syn=c["synapse"], B=c["batchsz"],
                                   delay=(c.get("maxdelay", 2.0) if self.d["delayed"] else None),
                                   dtype=(torch.float64 if c.get("dtype") else None))
        fac.randomize(conn, torch.Generator().manual_seed(self.d["seed"]), delay_steps=None)
        return conn

    def finalize(self, o):
        if self.d["delayed"]:
            o.delay = torch.full_like(o.delay, min(2.0, o.dt, o.synapse.delay))   # learned delays: same values on both twins

    def set(self, o, k, v):
        if k == "dtype":
            o.to(torch.float64)
        elif k == "synapse":
            shape = o.synapse.shape
            new = fac.synapse_ctor(v)(shape, o.dt, o.synapse.delay, o.batchsz)
            new.to(o.weight.dtype)
            o.synapse = new
        elif k == "maxdelay":
            o.synapse.delay = v
        else:
            setattr(o, k, v)

    def observe(self, o):
        return {"dt": o.dt, "batchsz": o.batchsz, "synapse": type(o.synapse).__name__, "synapse_dt": o.synapse.dt,
                "synapse_delay": o.synapse.delay, "synapse_batchsz": o.synapse.batchsz, "inshape": tuple(o.inshape),
                "outshape": tuple(o.outshape), "delayedby": o.delayedby, "biased": o.biased, "dtype": str(o.weight.dtype),
                "nsubmodules": len(list(o.children()))}

    def drive(self, o, g, T=8):
        o.clear()
        outs = []
        for _ in range(T):
            x = (torch.rand((o.batchsz,) + tuple(o.inshape), generator=g) < 0.5).to(o.weight.dtype)
            args = (x, torch.rand(x.shape, generator=g, dtype=torch.float64).to(o.weight.dtype)) if isinstance(o.synapse, neural.DeltaPlusCurrent) else (x,)
            outs.append(o(*args).clone())
        return outs


SYNNAME = {"delta": "DeltaCurrent", "deltaplus": "DeltaPlusCurrent", "single": "SingleExponentialCurrent", "double": "DoubleExponentialCurrent"}


class _Reducer:
    def __init__(self, d):
        self.d = d

    def build(self, c):
        r, dt = self.d["red"], c["dt"]
        kw = {"duration": c["duration"], "inplace": c["inplace"], "inclusive": bool(c.get("inclusive", False))}
        if r == "nearest":
            return observe.NearestTraceReducer(dt, 5.0, 1.0, 1.0, **kw)
        if r == "cumulative":
            return observe.CumulativeTraceReducer(dt, 5.0, 1.0, 1.0, **kw)
        if r == "event":
            return observe.EventReducer(dt, lambda x: x > 0.5, "zero", c["duration"], inclusive=bool(c.get("inclusive", False)),
                                        inplace=c["inplace"])
        if r == "passthrough":
            return observe.PassthroughReducer(dt, **kw)
        if r == "ema":
            return observe.EMAReducer(dt, 0.3, **kw)
        return observe.CAReducer(dt, **kw)

    def build(self, c, _inner=build):
        o = _inner(self, c)
        if c.get("dtype"):
            o.to(torch.float64)      # converted while it holds no data: the (lazily created) history must still be float64
        return o

    def expected_out_dtype(self, c):
        return torch.float64 if c.get("dtype") else torch.float32

    def set(self, o, k, v):
        if k == "dtype":
            o.to(torch.float64)
        elif k == "inclusive":
            o.data_.inclusive = v      # the record's documented flag: whether the history includes the sample `duration` ago
        else:
            setattr(o, k, v)

    def observe(self, o):
        out = {"dt": o.dt, "duration": o.duration, "inplace": o.inplace, "inclusive": bool(o.data_.inclusive)}
        if hasattr(o, "decay"):
            out["decay"] = round(float(o.decay), 12)
        return out

    def drive(self, o, g, T=8):
        # both documented forms of clear (storage dropped / storage kept and refilled) are a "cleared state"
        o.clear(keepshape=bool(self.d.get("seed", 0) & 1))
        outs = []
        for _ in range(T):
            x = (torch.rand((2, 3), generator=g) < 0.5).float()
            o(x)
            outs.append(o.peek().clone())
        outs.append(o.dump().clone())
        return outs


class _Layer:
    def __init__(self, d):
        self.d = d

    def _conn(self, c, nin, nout, k):
        conn = fac.make_connection("dense", c["dt"], syn=self.d["syn"], B=c["batchsz"], delay=2.0, nin=nin, nout=nout)
        fac.randomize(conn, torch.Generator().manual_seed(self.d["seed"] + k), wscale=(1.0 if k == 0 else 4.0), delay_steps=None)
        return conn

    def build(self, c):
        if self.d.get("topology") == "recurrent":
            # the layer kind that keeps batch-shaped state of its own (the stored feedback spikes)
            ff, lat, fb = self._conn(c, 4, 3, 0), self._conn(c, 3, 2, 1), self._conn(c, 2, 3, 2)
            return neural.RecurrentSerial(ff, lat, fb, fac.make_neuron(self.d["neuron"], (3,), c["dt"], c["batchsz"]),
                                          fac.make_neuron("LIF", (2,), c["dt"], c["batchsz"]))
        conn = self._conn(c, 4, 3, 0)
        n = fac.make_neuron(self.d["neuron"], conn.outshape, c["dt"], c["batchsz"])
        return neural.Serial(conn, n)

    @staticmethod
    def _parts(o):
        return [c for _, c in o.named_connections], [n for _, n in o.named_neurons]

    def finalize(self, o):
        for c in self._parts(o)[0]:
            c.delay = torch.full_like(c.delay, min(2.0, c.dt))

    def set(self, o, k, v):
        conns, neurons = self._parts(o)
        for m in conns + neurons:
            setattr(m, k, v)

    def observe(self, o):
        conns, neurons = self._parts(o)
        c0, n0 = conns[0], neurons[0]
        out = {"connection_dt": c0.dt, "neuron_dt": n0.dt, "connection_batchsz": c0.batchsz,
               "neuron_batchsz": n0.batchsz, "synapse_delay": c0.synapse.delay, "outshape": tuple(c0.outshape)}
        for i, m in enumerate(conns[1:] + neurons[1:]):
            out[f"other{i}_dt"], out[f"other{i}_batchsz"] = m.dt, m.batchsz
        return out

    def drive(self, o, g, T=8):
        o.clear()          # the layer's own documented way back to the state of a freshly built one
        conns, _ = self._parts(o)
        outs = []
        for _ in range(T):
            x = torch.rand((conns[0].batchsz,) + tuple(conns[0].inshape), generator=g) < 0.6
            r = o(x)
            outs.extend([t.clone() for t in r] if isinstance(r, tuple) else [r.clone()])
        return outs


ADAPTERS = {"neuron": _Neuron, "synapse": _Synapse, "connection": _Connection, "reducer": _Reducer, "layer": _Layer}
# which reported entries an assignment is allowed / required to change
AFFECTS = {
    "neuron": {"dt": ["dt"], "batchsz": ["batchsz", "batchedshape", "voltage_shape", "refrac_shape"], "dtype": ["dtype"]},
    "synapse": {"dt": ["dt"], "delay": ["delay"], "batchsz": ["batchsz", "current_shape"], "inplace": ["inplace"], "dtype": ["dtype"]},
    "connection": {"dt": ["dt", "synapse_dt"], "batchsz": ["batchsz", "synapse_batchsz"], "synapse": ["synapse"], "dtype": ["dtype"],
                   "maxdelay": ["synapse_delay", "delayedby"]},
    "reducer": {"inclusive": ["inclusive"], "dt": ["dt", "decay"], "duration": ["duration"], "inplace": ["inplace"], "dtype": []},
    "layer": {"dt": ["connection_dt", "neuron_dt", "other0_dt", "other1_dt", "other2_dt"],
              "batchsz": ["connection_batchsz", "neuron_batchsz", "other0_batchsz", "other1_batchsz", "other2_batchsz"]},
}


def _expect(kind, k, v, d):
    """reported values an assignment must produce"""
    if kind == "neuron":
        return {"dt": {"dt": v}, "batchsz": {"batchsz": v}, "dtype": {"dtype": "torch.float64"}}[k]
    if kind == "synapse":
        return {"dt": {"dt": v}, "delay": {"delay": v}, "batchsz": {"batchsz": v}, "inplace": {"inplace": v}, "dtype": {"dtype": "torch.float64"}}[k]
    if kind == "connection":
        return {"dt": {"dt": v, "synapse_dt": v}, "batchsz": {"batchsz": v, "synapse_batchsz": v}, "synapse": {"synapse": SYNNAME.get(v)},
                "dtype": {"dtype": "torch.float64"}, "maxdelay": {"synapse_delay": v, "delayedby": v}}[k]
    if kind == "reducer":
        return {"dt": {"dt": v}, "duration": {"duration": v}, "inplace": {"inplace": v}, "inclusive": {"inclusive": v}, "dtype": {}}[k]
    return {"dt": {"connection_dt": v, "neuron_dt": v}, "batchsz": {"connection_batchsz": v, "neuron_batchsz": v}}[k]


def run_case(ctx, desc):
    kind = desc["kind"]
    if ctx.counters.get("sampled." + kind, 0) == 0:
        ctx.count("sampled." + kind)
        ctx.sample(desc)
    ad = ADAPTERS[kind](desc)
    sub = desc.get("cls") or desc.get("syn") and kind == "synapse" and desc["syn"] or desc.get("conn") or desc.get("red") or desc.get("neuron")
    if kind == "layer":
        sub = f"{desc.get('topology', 'serial')}-{sub}"
        if desc.get("topology") == "recurrent":
            ctx.count("recurrent_layer_cases")
    try:
        A = ad.build(desc["c0"])
    except Exception as e:  # noqa: BLE001
        return ctx.violation(ctx.exc_signature(e, f"construct.{kind}"), f"{type(e).__name__}: {str(e)[:160]}", desc)
    cfg = dict(desc["c0"])
    if desc.get("nudged"):
        ctx.count("cases_with_an_assignment_a_hair_away_from_the_current_value")
    for si, (k, v, *flag) in enumerate(desc["seq"]):
        rdesc = {**desc, "seq": desc["seq"][: si + 1]}
        if flag:
            before = ad.observe(A)
            try:
                ad.set(A, k, v)
            except (ValueError, TypeError, RuntimeError):
                ctx.count("refused_assignments_checked")
                after = ad.observe(A)
                for name in before:
                    if before[name] != after.get(name):
                        return ctx.violation(f"{kind}.refused_set_{k}.changed_reported_value.{name}",
                                             f"the refused assignment {k}={v} changed {name}: {before[name]} -> {after.get(name)}", rdesc)
                continue
            # accepted after all: outside what the property speaks about, and the configuration is now unknown
            ctx.count("invalid_assignments_accepted")
            return
        if desc.get("used_before") and si in (0, 2):
            try:
                # learned adaptation is not part of the cleared state: keep it frozen while the component is being used
                # (adapt=None follows the training flag)
                target = A if isinstance(A, torch.nn.Module) else None
                if target is not None:
                    target.eval()
                ad.drive(A, torch.Generator().manual_seed(desc["seed"] + 17 + si))
                if target is not None:
                    target.train()
                ctx.count("assignments_after_use")
            except Exception as e:  # noqa: BLE001
                return ctx.violation(ctx.exc_signature(e, f"drive_before_assignment.{kind}"), f"{type(e).__name__}: {str(e)[:160]}", rdesc)
        before = ad.observe(A)
        ctx.case(f"{kind}/{sub}/set_{k}")
        ctx.count("assignments_checked")
        if k == "maxdelay":
            ctx.count("connection_maximum_delay_assignments")
        try:
            ad.set(A, k, v)
            after = ad.observe(A)
        except Exception as e:  # noqa: BLE001
            return ctx.violation(ctx.exc_signature(e, f"set_{k}.{kind}"), f"assigning {k}={v} raised {type(e).__name__}: {str(e)[:160]}", rdesc)
        cfg[k] = True if k == "dtype" else v
        for name, val in _expect(kind, k, v, desc).items():
            if after.get(name) != val:
                return ctx.violation(f"{kind}.set_{k}.not_reported_back.{name}",
                                     f"after assigning {k}={v}, {name} reports {after.get(name)}", rdesc, {"before": before, "after": after})
        allowed = set(AFFECTS[kind][k])
        for name in before:
            if name not in allowed and before[name] != after.get(name):
                return ctx.violation(f"{kind}.set_{k}.changed_other_attribute.{name}",
                                     f"assigning {k}={v} changed {name}: {before[name]} -> {after.get(name)}", rdesc)
    # ---- constructor-built twin with the final configuration
    try:
        B = ad.build(cfg)
    except Exception as e:  # noqa: BLE001
        return ctx.violation(ctx.exc_signature(e, f"construct.{kind}"), f"{type(e).__name__}: {str(e)[:160]}", desc)
    oa, ob = ad.observe(A), ad.observe(B)
    ctx.count("twin_comparisons")
    for name in ob:
        if oa.get(name) != ob[name]:
            return ctx.violation(f"{kind}.setter_built_ne_constructor_built.reported.{name}",
                                 f"{name}: setter-built reports {oa.get(name)}, constructor-built {ob[name]}", desc, {"A": oa, "B": ob})
    if kind == "neuron" and not desc.get("used_before"):
        # a group that was never stepped is at rest whatever sequence of assignments configured it (no clear() in between:
        # what a user reads, or steps from, right after the last assignment)
        ctx.count("resting_state_comparisons")
        for nm in ("voltage", "refrac"):
            va, vb = getattr(A, nm).detach(), getattr(B, nm).detach()
            if va.shape != vb.shape or not torch.equal(va, vb):
                return ctx.violation(f"neuron.setter_built_not_at_rest.{nm}",
                                     f"{nm} of a never-stepped setter-built group differs from a freshly built one: "
                                     f"{va.flatten()[:4].tolist()} vs {vb.flatten()[:4].tolist()}", desc)
    ra, rb = _records(A), _records(B)
    if ra != rb:
        diff = [k for k in set(ra) | set(rb) if ra.get(k) != rb.get(k)]
        k0 = sorted(diff)[0]
        fields = [f for f in ("recordsz", "dt", "duration", "inclusive", "dtype") if (ra.get(k0) or {}).get(f) != (rb.get(k0) or {}).get(f)]
        last = desc["seq"][-1][0] if desc["seq"] else "-"
        keyset = sorted({e[0] for e in desc["seq"]})
        return ctx.violation(f"{kind}.internal_history_sized_differently.{'+'.join(fields)}",
                             f"record {k0}: setter-built {ra.get(k0)} vs constructor-built {rb.get(k0)}", desc)
    try:
        if hasattr(ad, "finalize"):
            ad.finalize(A)
            ad.finalize(B)
        ga, gb = torch.Generator().manual_seed(desc["seed"]), torch.Generator().manual_seed(desc["seed"])
        xa, xb = ad.drive(A, ga), ad.drive(B, gb)
    except Exception as e:  # noqa: BLE001
        return ctx.violation(ctx.exc_signature(e, f"drive.{kind}"), f"{type(e).__name__}: {str(e)[:160]}", desc)
    ctx.count("output_comparisons")
    ra, rb = _records(A), _records(B)
    bad = sorted(k for k in set(ra) | set(rb) if (ra.get(k) or {}).get("dtype") != (rb.get(k) or {}).get("dtype"))
    if bad:
        return ctx.violation(f"{kind}.state_dtype_differs_from_constructor_built_after_use",
                             f"state {bad[0]}: setter-built holds {ra.get(bad[0])}, constructor-built {rb.get(bad[0])}", desc)
    want = ad.expected_out_dtype(cfg) if hasattr(ad, "expected_out_dtype") else None
    for i, (a, b) in enumerate(zip(xa, xb)):
        if want is not None:
            ctx.count("configured_dtype_checks")
            if a.dtype != want or b.dtype != want:
                return ctx.violation(f"{kind}.configured_dtype_not_kept", f"output {i}: configured {want}, setter-built gives {a.dtype}, "
                                     f"constructor-built {b.dtype} (float32 observations)", desc)
        if a.dtype != b.dtype:
            return ctx.violation(f"{kind}.output_dtype_differs_from_constructor_built",
                                 f"output {i}: setter-built gives {a.dtype}, constructor-built {b.dtype}", desc)
        same = a.shape == b.shape and (bool(torch.equal(a, b)) if a.dtype == torch.bool else bool(torch.allclose(a, b, rtol=1e-6, atol=1e-6, equal_nan=True)))
        if not same:
            keyset = sorted({e[0] for e in desc["seq"]})
            return ctx.violation(f"{kind}.outputs_differ_from_constructor_built",
                                 f"output {i} from a cleared state differs between setter-built and constructor-built", desc)
