"""C18 - delay-adjusted and kernel STDP agree with their formula and with each other.

M-model (true last-spike times, rv.trainers.Oracle) + M-rel (cross-implementation: kernel rule with the
shipped exponential kernels vs. the dedicated delay-adjusted rule; all-zero delays vs. the undelayed kernel rule).
"""

from __future__ import annotations

import numpy as np
import torch

from rv import trainers as tr
from rv.monitors import c08

FAMILY = ["KernelSTDP", "DelayAdjustedSTDP", "DelayAdjustedSTDPD", "DelayAdjustedKernelSTDP", "DelayAdjustedKernelSTDPD",
          "DelayAdjustedMSTDP", "DelayAdjustedMSTDPD"]
PAIRS = [("DelayAdjustedKernelSTDP", "DelayAdjustedSTDP"), ("DelayAdjustedKernelSTDPD", "DelayAdjustedSTDPD")]


def generate(ctx):
    rng = ctx.rng
    th = ctx.tier == "thorough"
    for i in range(900 if th else 42):
        name = FAMILY[i % len(FAMILY)]
        d = {"part": "formula", "trainer": name, "conn": rng.choice(["dense", "direct", "lateral", "conv"]), "dt": rng.choice([1.0, 0.5]),
             "B": rng.randint(1, 3), "T": rng.randint(6, 14), "signs": rng.randrange(4), "reduction": rng.choice(["sum", "sum", "mean", "amax"]),
             "reward": rng.choice(["scalar+", "scalar-", "tensor", "tensor"]), "scale": rng.choice([1.0, 0.5, -0.5, -1.5]),
             "p": rng.choice([0.2, 0.4, 0.7]), "seed": rng.randrange(1 << 30), "delay": rng.choice([1, 2, 3]),
             "delay_values": rng.choice(["ongrid", "offgrid", "zero"]), "reassign_delays": rng.random() < 0.4,
             "per_cell": rng.random() < 0.4, "inplace": rng.random() < 0.5, "online": rng.random() < 0.3,
             "interp_tolerance": rng.choice([0.0, 0.0, 0.3, 0.5, 0.75]), "clear_at": rng.choice([None, None, 2, 3, 5]), "keepshape": rng.random() < 0.6,
             "tensor_kwargs": rng.choice([[], [], ["post_learning_rate"], ["post_time_constant", "pre_learning_rate"],
                                          ["post_learning_rate", "post_time_constant"], ["pre_time_constant"]])}
        if rng.random() < 0.4:
            d.update(tc_a=round(rng.uniform(1.5, 40.0), 3), tc_b=round(rng.uniform(1.5, 40.0), 3), tc_elig=round(rng.uniform(3.0, 50.0), 2),
                     mag=[round(rng.uniform(0.01, 2.0), 4), round(rng.uniform(0.01, 2.0), 4)], dt=rng.choice([1.0, 0.5, 0.25, 1.3]))
            if d["dt"] == 1.3:
                # not exactly representable: mathematically simultaneous pairs (t_delta == 0, where the rule is discontinuous)
                # are rounded independently on the two sides, so keep delays off the step grid where ties have measure zero
                d["delay_values"] = "offgrid"
        if name == "KernelSTDP":
            d["delay"] = rng.choice([None, 2, 3])
            d["delayed"] = bool(d["delay"]) and rng.random() < 0.5
            # arrival-time mode reads the synapse's own (step-quantised) spike view; the delayed mode reads the raw event
            # history one real-valued delay ago, sub-step delays included
            d["delay_values"] = rng.choice(["ongrid", "offgrid", "offgrid"]) if d["delayed"] else "ongrid"
        if d["reward"] == "tensor":
            d["reduction"] = "sum"
        if "Kernel" in name and rng.random() < 0.4:
            d["kernel"] = "osc"           # a user kernel whose sign changes with the time difference
        # updates accumulate over several trainer calls (inspected in between) before the connection applies them
        d["update_every"] = rng.choice([1, 1, 2, 3])
        yield d
    for i in range(400 if th else 16):
        yield {"part": "cross", "pair": i % 2, "tensor_kwargs": rng.choice([[], ["post_learning_rate", "post_time_constant"], ["pre_learning_rate"]]),
               "conn": rng.choice(["dense", "direct", "lateral", "conv"]), "dt": rng.choice([1.0, 0.5]),
               "B": rng.randint(1, 2), "T": rng.randint(6, 12), "signs": rng.randrange(4), "p": rng.choice([0.3, 0.6]),
               "seed": rng.randrange(1 << 30), "delay_values": rng.choice(["ongrid", "offgrid"]),
               **({"tc_a": round(rng.uniform(1.5, 40.0), 3), "tc_b": round(rng.uniform(1.5, 40.0), 3),
                   "mag": [round(rng.uniform(0.01, 2.0), 4), round(rng.uniform(0.01, 2.0), 4)]} if rng.random() < 0.4 else {})}
    for i in range(300 if th else 12):
        yield {"part": "zero_delay", "trainer": rng.choice(["DelayAdjustedSTDP", "DelayAdjustedKernelSTDP"]),
               "conn": rng.choice(["dense", "direct", "lateral", "conv"]), "dt": rng.choice([1.0, 0.5]), "B": rng.randint(1, 2),
               "T": rng.randint(6, 12), "signs": rng.randrange(4), "p": rng.choice([0.3, 0.6]), "seed": rng.randrange(1 << 30)}
    # several cells in ONE trainer (own hyper-parameters each; sharing a neuron group, a connection, or living in two layers
    # of which one stops training): every cell still follows its own documented rule
    keys = ["lr_a", "lr_b", "tc_a", "tc_b", "tc_elig"]
    for i in range(210 if th else 21):
        base = {"lr_a": rng.choice([0.8, -0.8]), "lr_b": rng.choice([0.5, -0.5]), "tc_a": 7.0, "tc_b": 11.0, "tc_elig": 15.0}
        other = dict(base)
        for k in rng.sample(keys, rng.randint(1, 2)):
            other[k] = {"lr_a": rng.choice([0.4, -0.8, 0.8]), "lr_b": rng.choice([0.25, 0.9, -0.5]), "tc_a": 9.0, "tc_b": 5.0, "tc_elig": 6.0}[k]
        yield {"part": "multicell", "trainer": FAMILY[i % len(FAMILY)], "dt": rng.choice([1.0, 0.5]), "B": rng.randint(1, 2),
               "T": rng.randint(6, 10), "hypers": [base, other], "topology": ["fan_in", "fan_out", "two_layers"][(i // len(FAMILY)) % 3],
               "freeze_at": rng.choice([3, 5, 10 ** 9]), "reduction": "sum", "reward": rng.choice(["scalar+", "scalar-", "tensor"]),
               "scale": rng.choice([1.0, 0.25, 2.0, -0.5, -1.5]), "p": rng.choice([0.4, 0.7]), "seed": rng.randrange(1 << 30),
               "partial_calls": rng.random() < 0.6, "apply_via": rng.choice(["connection", "trainer"])}
    for sg in range(4):
        for k in (0, 1, 2):
            yield {"part": "tie", "signs": sg, "k": k, "trainer": ["DelayAdjustedSTDP", "DelayAdjustedKernelSTDP", "KernelSTDP"][k % 3]}


def _np(t):
    return t.detach().to(torch.float64).numpy()


def _set_delays(h, mode, g):
    if h.conn.delayedby is None:
        return
    K = h.K
    if mode == "zero":
        d = torch.zeros(h.conn.delay.shape)
    elif mode == "ongrid":
        d = torch.randint(0, K + 1, h.conn.delay.shape, generator=g).double() * h.dt
    else:
        d = torch.rand(h.conn.delay.shape, generator=g, dtype=torch.float64) * K * h.dt
    h.conn.delay = d.to(h.conn.delay.dtype)


def _spikes(desc, h, g):
    B, T = desc["B"], desc["T"]
    ish, osh = (B,) + tuple(h.conn.inshape), (B,) + tuple(h.conn.outshape)
    pre = [torch.rand(ish, generator=g) < desc["p"] for _ in range(T)]
    post = [torch.rand(osh, generator=g) < desc["p"] for _ in range(T)]
    return pre, post


def run_case(ctx, desc):
    part = desc["part"]
    if ctx.counters.get("sampled." + part, 0) == 0:
        ctx.count("sampled." + part)
        ctx.sample(desc)
    try:
        if part == "formula":
            return _formula(ctx, desc)
        if part == "cross":
            return _cross(ctx, desc)
        if part == "zero_delay":
            return _zero(ctx, desc)
        if part == "multicell":
            return c08.run_multicell(ctx, desc, "C18")
        return _tie(ctx, desc)
    except (RuntimeError, ValueError, TypeError, AttributeError, IndexError, KeyError) as e:
        ctx.violation(ctx.exc_signature(e, f"{part}.{desc.get('trainer', '')}.{desc.get('conn', '')}"),
                      f"{type(e).__name__}: {str(e)[:200]}", desc)


def _continuous(desc, hyper, a, b):
    """time constants and learning-rate magnitudes off the fixed menu (drawn by the generator)"""
    for k in ("tc_a", "tc_b", "tc_elig"):
        if k in desc:
            hyper[k] = desc[k]
    if "mag" in desc:
        hyper["lr_a"], hyper["lr_b"] = a * desc["mag"][0], b * desc["mag"][1]


def _formula(ctx, desc):
    name = desc["trainer"]
    a, b = c08.SIGNS[desc["signs"]]
    hyper = {"lr_a": a, "lr_b": b, "delayed": desc.get("delayed", False), "tensor_kwargs": desc.get("tensor_kwargs", []),
             "inplace": bool(desc.get("inplace")), "kernel": desc.get("kernel")}
    if desc.get("interp_tolerance") and name.startswith("DelayAdjusted"):
        # (KernelSTDP reads its presynaptic event times through the delay-offset view, where the tolerance legitimately snaps
        # a read to a stored step: only the delay-adjusted rules, which subtract the delay themselves, are given one)
        # the documented time tolerance of the trainers' delayed reads: the causal branch is still chosen iff t_delta >= 0
        hyper["interp_tolerance"] = desc["interp_tolerance"]
        ctx.count("cases_with_a_positive_interpolation_tolerance")
    if desc.get("kernel"):
        ctx.count("user_kernel_cases")
    _continuous(desc, hyper, a, b)
    red = desc["reduction"]
    h = tr.Harness(name, desc["conn"], dt=desc["dt"], B=desc["B"], delay_steps=desc["delay"], seed=desc["seed"],
                   batch_reduction=c08.RED[red], hyper=hyper, dtype=torch.float64, max_delay_steps=(3 if desc["delay"] else None),
                   per_cell=desc.get("per_cell", False), online=bool(desc.get("online")))
    if h.cell_reduction_none:
        ctx.count("cells_registered_with_batch_reduction_none")
    if h.online:
        ctx.count("cases_with_the_trainer_stepped_from_a_layer_forward_hook")
    if desc.get("tensor_kwargs") and "Kernel" in name:
        ctx.count("tensor_valued_kernel_kwargs_cases")
    g = torch.Generator().manual_seed(desc["seed"] + 5)
    _set_delays(h, desc["delay_values"], g)
    orc = tr.Oracle(name, desc["conn"], h.conn, h.dt, hyper, red)
    pre, post = _spikes(desc, h, g)
    rewards = None
    if name in tr.THREE_FACTOR:
        if desc["reward"] == "tensor":
            rewards = [torch.randn(desc["B"], generator=g, dtype=torch.float64) for _ in range(desc["T"])]
        else:
            sgn = 1.0 if desc["reward"] == "scalar+" else -1.0
            rewards = [sgn * float(torch.rand(1, generator=g)) for _ in range(desc["T"])]
    mask = (1 - np.eye(h.conn.weight.shape[0])) if desc["conn"] == "lateral" else None
    pend, tainted = None, False
    for t in range(desc["T"]):
        rdesc = {**desc, "T": t + 1}
        if desc["reassign_delays"] and t and t % 3 == 0 and name not in tr.LEARNS_DELAY:
            _set_delays(h, desc["delay_values"], g)
        if t and desc.get("clear_at") == t and name.startswith("DelayAdjusted"):
            # the trainer forgets its event history (both documented forms of clear): from here on "most recent spike"
            # means most recent since the clear - a fresh oracle
            h.trainer.clear(keepshape=desc["keepshape"])
            orc = tr.Oracle(name, desc["conn"], h.conn, h.dt, hyper, red)
            ctx.count("trainer_clears")
        delays = None if h.conn.delayedby is None else h.conn.delay.detach().clone()
        reward = rewards[t] if rewards else None
        ue = desc.get("update_every", 1) if (name not in tr.LEARNS_DELAY and not desc.get("clear_at")) else 1
        applying = (t + 1) % ue == 0
        pos, neg, dparam = h.step_apply(pre[t], post[t], reward, desc["scale"], apply=applying)
        orc.near_tie = False
        epos, eneg = orc.step(pre[t], post[t], delays, reward, desc["scale"])
        if ue > 1:
            # what is pending is the sum of the parts contributed since the last application (accumulators add parts up)
            ctx.count("steps_with_accumulated_pending_updates")
            pend_p = epos if pend is None else pend[0] + epos
            pend_n = eneg if pend is None else pend[1] + eneg
            pend = None if applying else (pend_p, pend_n)
            if not applying:
                dparam = None
            epos, eneg = pend_p, pend_n
            tainted = tainted or orc.near_tie
            if applying:
                orc.near_tie, tainted = tainted, False
        if orc.near_tie:
            # mathematically simultaneous pair at a step time that is not exactly representable: not decidable (guard band)
            ctx.guard_skips += 1
            ctx.count("near_tie_steps_not_decided")
            continue
        ctx.guard_compared += 1
        active = bool(epos.any() or eneg.any())
        ctx.case(f"formula/{name}/{desc['conn']}/{desc['delay_values']}/signs{desc['signs']}/{red}/B{desc['B']}/"
                 f"{desc['reward'] if name in tr.THREE_FACTOR else '-'}/{'active' if active else 'silent'}")
        ctx.count("formula_steps_checked")
        if name == "KernelSTDP" and hyper["delayed"] and desc["delay_values"] == "offgrid":
            ctx.count("kernel_delayed_substep_delay_steps")
        if active:
            ctx.count("steps_with_change")
        else:
            ctx.count("steps_before_both_sides_spiked")
        gp, gn = _np(pos), _np(neg)
        if not np.allclose(gp - gn, epos - eneg, rtol=1e-8, atol=1e-10):
            return ctx.violation(f"{name}.net_change_ne_formula.{desc['conn']}.{desc['delay_values']}",
                                 f"step {t}: change differs from the documented function of t_delta from the true last spike times",
                                 rdesc, {"max_err": float(np.abs(gp - gn - epos + eneg).max())})
        if not (np.allclose(gp, epos, rtol=1e-8, atol=1e-10) and np.allclose(gn, eneg, rtol=1e-8, atol=1e-10)):
            return ctx.violation(f"{name}.parts_ne_formula.{desc['conn']}", f"step {t}: potentiating / depressing split differs", rdesc)
        enet = epos - eneg
        if mask is not None:
            enet = enet * mask
        if dparam is not None and not np.allclose(_np(dparam), enet, rtol=1e-8, atol=1e-10):
            return ctx.violation(f"{name}.applied_change_ne_formula.{desc['conn']}", f"step {t}: applied {h.param} change differs", rdesc)


def _cross(ctx, desc):
    kname, dname = PAIRS[desc["pair"]]
    a, b = c08.SIGNS[desc["signs"]]
    hyper = {"lr_a": a, "lr_b": b, "tensor_kwargs": desc.get("tensor_kwargs", [])}
    _continuous(desc, hyper, a, b)
    mk = lambda n: tr.Harness(n, desc["conn"], dt=desc["dt"], B=desc["B"], delay_steps=2, seed=desc["seed"],
                              batch_reduction=torch.sum, hyper=hyper, dtype=torch.float64, max_delay_steps=3)
    hk, hd = mk(kname), mk(dname)
    g = torch.Generator().manual_seed(desc["seed"] + 5)
    _set_delays(hk, desc["delay_values"], g)
    hd.conn.delay = hk.conn.delay.detach().clone()
    pre, post = _spikes(desc, hk, g)
    for t in range(desc["T"]):
        pk, nk, dk = hk.step_apply(pre[t], post[t])
        pd, nd, dd = hd.step_apply(pre[t], post[t])
        ctx.case(f"cross/{kname}/{desc['conn']}/signs{desc['signs']}/{desc['delay_values']}")
        ctx.count("cross_steps_checked")
        if not torch.allclose(pk - nk, pd - nd, rtol=1e-9, atol=1e-11) or not torch.allclose(dk, dd, rtol=1e-9, atol=1e-11):
            return ctx.violation(f"cross.{kname}_ne_{dname}.{desc['conn']}",
                                 f"step {t}: kernel rule with the shipped exponential kernels differs from the dedicated rule",
                                 {**desc, "T": t + 1}, {"max_err": float(((pk - nk) - (pd - nd)).abs().max())})


def _zero(ctx, desc):
    a, b = c08.SIGNS[desc["signs"]]
    hyper = {"lr_a": a, "lr_b": b, "delayed": False}
    hz = tr.Harness(desc["trainer"], desc["conn"], dt=desc["dt"], B=desc["B"], delay_steps=2, seed=desc["seed"],
                    batch_reduction=torch.sum, hyper=hyper, dtype=torch.float64, max_delay_steps=3)
    hu = tr.Harness("KernelSTDP", desc["conn"], dt=desc["dt"], B=desc["B"], delay_steps=None, seed=desc["seed"],
                    batch_reduction=torch.sum, hyper=hyper, dtype=torch.float64)
    hz.conn.delay = torch.zeros_like(hz.conn.delay)
    hu.conn.weight = hz.conn.weight.detach().clone()
    g = torch.Generator().manual_seed(desc["seed"] + 5)
    pre, post = _spikes(desc, hz, g)
    for t in range(desc["T"]):
        pz, nz, _ = hz.step_apply(pre[t], post[t])
        pu, nu, _ = hu.step_apply(pre[t], post[t])
        ctx.case(f"zero_delay/{desc['trainer']}/{desc['conn']}/signs{desc['signs']}")
        ctx.count("zero_delay_steps_checked")
        if not torch.allclose(pz - nz, pu - nu, rtol=1e-9, atol=1e-11):
            return ctx.violation(f"zero_delay.{desc['trainer']}_ne_undelayed_kernel.{desc['conn']}",
                                 f"step {t}: with all delays zero the delay-adjusted rule differs from the unadjusted kernel rule",
                                 {**desc, "T": t + 1})


def _tie(ctx, desc):
    """t_delta == 0 exactly: pre at step 1, post at step 1 + k, delay k*dt (dt = 1): the causal branch must apply"""
    a, b = c08.SIGNS[desc["signs"]]
    k, name = desc["k"], desc["trainer"]
    hyper = {"lr_a": a, "lr_b": b, "delayed": False}
    delay = None if name == "KernelSTDP" else 3
    h = tr.Harness(name, "dense", dt=1.0, B=1, delay_steps=delay, seed=1, batch_reduction=torch.sum, hyper=hyper, dtype=torch.float64,
                   max_delay_steps=3 if delay else None)
    kk = 0 if name == "KernelSTDP" else k
    if delay:
        h.conn.delay = torch.full_like(h.conn.delay, float(kk))
    T = kk + 3
    last = None
    for t in range(T):
        pre = torch.full((1, 3), t == 1)
        post = torch.full((1, 2), t == 1 + kk)
        last = h.step_apply(pre, post)
        if t == 1 + kk:
            break
    pos, neg, _ = last
    net = _np(pos - neg)
    ctx.case(f"tie/{name}/signs{desc['signs']}/k{kk}")
    ctx.count("ties_checked")
    exp = a  # exp(0) * eta_causal
    if not np.allclose(net, exp, rtol=1e-10, atol=1e-12):
        ctx.violation(f"tie.{name}.causal_branch_at_t_delta_zero",
                      f"t_delta == 0 must take the causal branch (expected change {exp}, got {net.flatten()[:3].tolist()})", desc)
