"""C08 - STDP-family weight changes equal the documented sum over spike pairs.

M-model on real trainers wired to real layers (rv.trainers.Harness): pre spikes are the layer input,
post spikes are imposed, and after every layer step + trainer call + update the accumulated parts and
the weight difference are compared with an oracle computed from the spike times only.
"""

from __future__ import annotations

import itertools

import numpy as np
import torch

from rv import trainers as tr

PAIR_TRAINERS = ["STDP", "TripletSTDP", "MSTDP", "MSTDPET", "StableSTDP", "StableTripletSTDP"]
SIGNS = [(0.8, -0.5), (-0.8, 0.5), (0.8, 0.5), (-0.8, -0.5)]


def generate(ctx):
    rng = ctx.rng
    th = ctx.tier == "thorough"
    # (a) exhaustive 1x1 dense histories: all 4^T joint pre/post histories x sign modes x trace modes
    T = 5 if th else 4
    combos = list(itertools.product(range(4 ** T), range(4), ["cumulative", "nearest"]))
    for i, (code, sg, mode) in enumerate(combos):
        if i % ctx.nshards != ctx.shard:
            continue
        yield {"part": "exhaustive", "trainer": "STDP" if (i // ctx.nshards) % 4 else "TripletSTDP", "T": T, "code": code,
               "signs": sg, "trace_mode": mode}
    # (b) random populations
    for i in range(700 if th else 22):
        name = PAIR_TRAINERS[i % len(PAIR_TRAINERS)]
        delay = rng.choice([None, None, 2, 3])
        d = {"part": "random", "trainer": name, "conn": rng.choice(["dense", "direct", "lateral", "conv"]), "dt": rng.choice([1.0, 0.5]),
             "B": rng.randint(1, 3), "T": rng.randint(6, 12), "signs": rng.randrange(4), "trace_mode": rng.choice(["cumulative", "nearest"]),
             "delay": delay, "delayed": (rng.random() < 0.5) if (delay and name in tr.HAS_DELAYED_FLAG) else False,
             "reduction": rng.choice(["sum", "sum", "mean", "amax"]), "reward": rng.choice(["scalar+", "scalar-", "tensor", "tensor"]),
             "scale": rng.choice([1.0, 0.5, 2.0, -0.5, -1.5]), "p": rng.choice([0.3, 0.5, 0.8]), "seed": rng.randrange(1 << 30),
             "reassign_delays": bool(delay) and rng.random() < 0.4, "per_cell": rng.random() < 0.4, "online": rng.random() < 0.3,
             "lr_a3": rng.choice([0.3, -0.3, 1.5, -1.5]), "lr_b3": rng.choice([0.2, -0.2, 1.2, -1.2]),
             "clear_at": rng.choice([None, None, 3, 5]), "keepshape": rng.random() < 0.6,
             "inplace": rng.random() < 0.5, "interp_tolerance": rng.choice([0.0, 1e-3]), "update_every": rng.choice([1, 1, 2, 3])}
        if d["reward"] == "tensor":
            d["reduction"] = "sum"   # per-sample signals split the batch by sign: only a sum is reduction-order free
        if rng.random() < 0.4:
            # off the menu: time constants and learning-rate magnitudes drawn from continuous ranges
            u = rng.uniform
            d.update(tc_a=round(u(1.5, 40.0), 3), tc_b=round(u(1.5, 40.0), 3), tc_elig=round(u(3.0, 50.0), 2),
                     mag=[round(u(0.01, 2.0), 4), round(u(0.01, 2.0), 4)])
            d.update(tc_a_slow=round(d["tc_a"] + u(0.5, 60.0), 2), tc_b_slow=round(d["tc_b"] + u(0.5, 60.0), 2))   # documented: slow > fast
        yield d


    # (b2) delays that are not whole steps, delayed=True: the post-triggered term is a function of continuous time
    for i in range(300 if th else 16):
        yield {"part": "fracdelay", "conn": rng.choice(["dense", "direct"]), "dt": rng.choice([1.0, 0.5]), "B": rng.randint(1, 3),
               "T": rng.randint(8, 14), "signs": rng.randrange(2), "trace_mode": rng.choice(["cumulative", "nearest"]),
               "p": rng.choice([0.3, 0.5, 0.8]), "seed": rng.randrange(1 << 30),
               "fracs": [rng.choice([0.0, 0.5, 0.25, 0.75, 0.3, round(rng.uniform(0.05, 0.95), 2)]) for _ in range(3)]}

    # (c) two cells sharing one neuron group in one trainer, hyper-parameters overridden per cell and differing in a few places
    MULTI = ["STDP", "TripletSTDP", "MSTDP", "MSTDPET", "KernelSTDP", "DelayAdjustedSTDP", "DelayAdjustedMSTDP"]
    keys = ["lr_a", "lr_b", "tc_a", "tc_b", "lr_a3", "lr_b3", "trace_mode", "tc_elig"]
    for i in range(420 if th else 42):
        base = {"lr_a": rng.choice([0.8, -0.8]), "lr_b": rng.choice([0.5, -0.5]), "tc_a": 7.0, "tc_b": 11.0, "lr_a3": 0.3, "lr_b3": 0.2,
                "trace_mode": rng.choice(["cumulative", "nearest"]), "tc_elig": 15.0}
        other = dict(base)
        for k in (["trace_mode"] if rng.random() < 0.3 else rng.sample(keys, rng.randint(1, 2))):
            other[k] = {"lr_a": rng.choice([0.4, -0.8, 0.8]), "lr_b": rng.choice([0.25, 0.9, -0.5]), "tc_a": 9.0, "tc_b": 5.0,
                        "lr_a3": -0.6, "lr_b3": 0.7, "trace_mode": "nearest" if base["trace_mode"] == "cumulative" else "cumulative",
                        "tc_elig": 6.0}[k]
        yield {"part": "multicell", "trainer": MULTI[i % len(MULTI)], "dt": rng.choice([1.0, 0.5]), "B": rng.randint(1, 2), "T": rng.randint(6, 10),
               "hypers": [base, other], "topology": ["fan_in", "fan_out", "two_layers"][(i // len(MULTI)) % 3], "freeze_at": rng.choice([3, 5, 10 ** 9]),
               "reduction": "sum", "reward": rng.choice(["scalar+", "scalar-", "tensor"]),
               "scale": rng.choice([1.0, 0.25, 2.0, -0.5, -1.5]), "p": rng.choice([0.4, 0.7]), "seed": rng.randrange(1 << 30),
               "partial_calls": rng.random() < 0.6, "apply_via": rng.choice(["connection", "trainer"])}


RED = {"sum": torch.sum, "mean": torch.mean, "amax": torch.amax}


def _np(t):
    return t.detach().to(torch.float64).numpy()


def run_trainer_history(ctx, desc, prop, pre_seq, post_seq, rewards, extra_check=None):
    """drive harness + oracle through a spike history; returns False after the first violation"""
    name = desc["trainer"]
    a, b = SIGNS[desc["signs"]]
    hyper = {"lr_a": a, "lr_b": b, "trace_mode": desc.get("trace_mode", "cumulative"), "delayed": desc.get("delayed", False)}
    for k in ("lr_a3", "lr_b3", "tensor_kwargs", "tc_a", "tc_b", "tc_a_slow", "tc_b_slow", "tc_elig", "inplace", "interp_tolerance", "kernel"):
        if k in desc:
            hyper[k] = desc[k]
    if "mag" in desc:
        hyper["lr_a"], hyper["lr_b"] = a * desc["mag"][0], b * desc["mag"][1]
    kind = desc.get("conn", "dense1")
    conn_kind = "dense" if kind == "dense1" else kind
    red = desc.get("reduction", "sum")
    try:
        h = tr.Harness(name, conn_kind, dt=desc.get("dt", 1.0), B=desc.get("B", 1), delay_steps=desc.get("delay"),
                       seed=desc.get("seed", 0), batch_reduction=RED[red], hyper=hyper, dtype=torch.float64,
                       max_delay_steps=(3 if desc.get("delay") else None), per_cell=desc.get("per_cell", False),
                       online=bool(desc.get("online")))
    except Exception as e:  # noqa: BLE001
        ctx.violation(ctx.exc_signature(e, f"construct.{name}"), f"{type(e).__name__}: {str(e)[:160]}", desc)
        return False
    if h.cell_reduction_none:
        ctx.count("cells_registered_with_batch_reduction_none")
    if h.online:
        ctx.count("cases_with_the_trainer_stepped_from_a_layer_forward_hook")
    if desc.get("per_cell"):
        ctx.count("per_cell_override_cases")
    orc = tr.Oracle(name, conn_kind, h.conn, h.dt, hyper, red)
    g = torch.Generator().manual_seed(desc.get("seed", 0) + 3)
    tagd = f"delay{'-' if not desc.get('delay') else ('T' if desc.get('delayed') else 'F')}"
    mask = None
    if conn_kind == "lateral":
        mask = 1 - np.eye(h.conn.weight.shape[0])
    pend = None
    for t, (pre, post) in enumerate(zip(pre_seq, post_seq)):
        rdesc = {**desc, "T": t + 1}
        if desc.get("reassign_delays") and t and t % 3 == 0:
            k = torch.randint(0, 4, h.conn.delay.shape, generator=g)
            h.conn.delay = (k * h.dt).to(h.conn.delay.dtype)
        if t and desc.get("clear_at") == t:
            # a new episode: trainer and layer forget their histories (both documented forms of clear) - a fresh oracle
            h.trainer.clear(keepshape=bool(desc.get("keepshape")))
            h.layer.clear()
            orc = tr.Oracle(name, conn_kind, h.conn, h.dt, hyper, red)
            ctx.count("episode_clears")
        delays = None if h.conn.delayedby is None else h.conn.delay.detach().clone()
        reward = rewards[t] if rewards is not None else None
        # updates may accumulate over several trainer calls (inspected in between) before the connection applies them: what is
        # pending is then the sum of the per-step contributions since the last application
        ue = desc.get("update_every", 1) if not desc.get("clear_at") else 1
        applying = (t + 1) % ue == 0
        try:
            pos, neg, dparam = h.step_apply(pre, post, reward, desc.get("scale", 1.0), apply=applying)
        except Exception as e:  # noqa: BLE001
            ctx.violation(ctx.exc_signature(e, f"step.{name}.{conn_kind}.{tagd}"), f"{type(e).__name__}: {str(e)[:200]}", rdesc)
            return False
        epos, eneg = orc.step(pre, post, delays, reward, desc.get("scale", 1.0))
        if ue > 1:
            ctx.count("steps_with_accumulated_pending_updates")
            if pend is not None:
                epos, eneg = pend[0] + epos, pend[1] + eneg
            pend = None if applying else (epos, eneg)
        ctx.case(f"{prop}/{name}/{kind}/{tagd}/signs{desc['signs']}/{hyper['trace_mode']}/{red}/B{desc.get('B', 1)}/pc{int(bool(desc.get('per_cell')))}/"
                 f"{desc.get('reward', '-')}/{'pairs' if (epos.any() or eneg.any()) else 'nopairs'}")
        ctx.count("trainer_steps_checked")
        if epos.any() or eneg.any():
            ctx.count("steps_with_pairs")
        gp, gn = _np(pos), _np(neg)
        rt, at = 1e-8, 1e-10
        if extra_check is not None and extra_check(ctx, rdesc, h, gp, gn, epos, eneg) is False:
            return False
        net, enet = gp - gn, epos - eneg
        if not np.allclose(net, enet, rtol=rt, atol=at):
            ctx.violation(f"{name}.net_update_ne_pair_sum.{conn_kind}.{tagd}.{hyper['trace_mode']}",
                          f"step {t}: potentiation - depression differs from the documented pair sum", rdesc,
                          {"max_err": float(np.abs(net - enet).max()), "got": net.tolist() if net.size < 30 else None,
                           "expected": enet.tolist() if enet.size < 30 else None})
            return False
        if not (np.allclose(gp, epos, rtol=rt, atol=at) and np.allclose(gn, eneg, rtol=rt, atol=at)):
            ctx.violation(f"{name}.parts_ne_pair_sum.{conn_kind}.{tagd}",
                          f"step {t}: the potentiating / depressing split differs from the rule's split", rdesc)
            return False
        e_applied = (enet if mask is None else enet * mask) if applying else np.zeros_like(enet)
        if not np.allclose(_np(dparam), e_applied, rtol=rt, atol=at):
            ctx.violation(f"{name}.applied_change_ne_pair_sum.{conn_kind}.{tagd}",
                          f"step {t}: the parameter changed by something other than potentiation - depression", rdesc,
                          {"max_err": float(np.abs(_np(dparam) - e_applied).max())})
            return False
    return True


def _histories(desc, h_in_shape=None):
    if desc["part"] == "exhaustive":
        T, code = desc["T"], desc["code"]
        pre, post = [], []
        for t in range(T):
            c = (code >> (2 * t)) & 3
            pre.append(torch.tensor([[bool(c & 1)] * 3]))
            post.append(torch.tensor([[bool(c & 2)] * 2]))
        return pre, post
    raise AssertionError


def run_fracdelay(ctx, desc, prop="C08"):
    """STDP, delayed=True, per-synapse delays (k + f) * dt: the post-triggered term pairs each post spike with the pre spikes
    whose (continuous) arrival time s*dt + d is not later than the post spike - sum of eta_post * exp(-(t*dt - s*dt - d)/tau_pre).
    (The pre-triggered term needs a convention for aligning a fractional arrival to the step grid and is not judged here.)"""
    a, b = SIGNS[desc["signs"]]
    hyper = {"lr_a": a, "lr_b": b, "trace_mode": desc["trace_mode"], "delayed": True}
    try:
        h = tr.Harness("STDP", desc["conn"], dt=desc["dt"], B=desc["B"], delay_steps=2, seed=desc["seed"], batch_reduction=torch.sum,
                       hyper=hyper, dtype=torch.float64, max_delay_steps=3)
    except Exception as e:  # noqa: BLE001
        ctx.violation(ctx.exc_signature(e, "construct.STDP.fracdelay"), f"{type(e).__name__}: {str(e)[:160]}", desc)
        return False
    g = torch.Generator().manual_seed(desc["seed"] + 11)
    k = torch.randint(0, 3, h.conn.delay.shape, generator=g).to(torch.float64)
    f = torch.tensor(desc["fracs"], dtype=torch.float64)[torch.randint(0, 3, h.conn.delay.shape, generator=g)]
    h.conn.delay = ((k + f) * h.dt).to(h.conn.delay.dtype)
    orc = tr.Oracle("STDP", desc["conn"], h.conn, h.dt, hyper, "sum")
    ish, osh = (desc["B"],) + tuple(h.conn.inshape), (desc["B"],) + tuple(h.conn.outshape)
    W = tuple(h.conn.weight.shape)
    tb = orc.h["tc_b"]
    for t in range(desc["T"]):
        rdesc = {**desc, "T": t + 1}
        pre = torch.rand(ish, generator=g) < desc["p"]
        post = torch.rand(osh, generator=g) < desc["p"]
        delays = h.conn.delay.detach().to(torch.float64).numpy().copy()
        try:
            pos, neg, _ = h.step_apply(pre, post, None, 1.0)
        except Exception as e:  # noqa: BLE001
            ctx.violation(ctx.exc_signature(e, "step.STDP.fracdelay"), f"{type(e).__name__}: {str(e)[:200]}", rdesc)
            return False
        pe, qe = tr._expand(desc["conn"], h.conn, pre, post)
        orc.pre_raw.append(pe)
        teff = np.broadcast_to(t - delays.reshape((1,) + W + (1,)) / h.dt, pe.shape)
        xa = orc._trace(orc.pre_raw, tb, teff)
        expected = (qe * abs(a) * xa).sum(-1).sum(0)
        got = _np(pos if a >= 0 else neg)
        ctx.case(f"{prop}/fracdelay/{desc['conn']}/signs{desc['signs']}/{desc['trace_mode']}/B{desc['B']}/{'pairs' if expected.any() else 'nopairs'}")
        ctx.count("fractional_delay_steps_checked")
        if not np.allclose(got, expected, rtol=1e-8, atol=1e-10):
            ctx.violation(f"STDP.fracdelay.post_triggered_term_ne_pair_sum.{desc['conn']}.{desc['trace_mode']}",
                          f"step {t}: the post-triggered part differs from the sum over pre spikes arrived by then", rdesc,
                          {"max_err": float(np.abs(got - expected).max())})
            return False
    return True


def run_multicell(ctx, desc, prop="C08"):
    name = desc["trainer"]
    topo = desc.get("topology", "fan_in")
    try:
        h = tr.MultiHarness(name, dt=desc["dt"], B=desc["B"], seed=desc["seed"], batch_reduction=RED[desc["reduction"]],
                            hypers=desc["hypers"], dtype=torch.float64, topology=topo)
    except Exception as e:  # noqa: BLE001
        ctx.violation(ctx.exc_signature(e, f"construct.multicell.{name}"), f"{type(e).__name__}: {str(e)[:160]}", desc)
        return False
    if desc.get("apply_via") == "trainer":
        h.apply_via = "trainer"
        ctx.count("multicell_cases_applied_through_trainer_update")
    # cell i = (connection ci[i], neuron group ni[i])
    ci, ni = {"fan_in": ([0, 1], [0, 0]), "fan_out": ([0, 0], [0, 1]), "two_layers": ([0, 1], [0, 1])}[topo]
    frozen = False
    orcs = [tr.Oracle(name, "dense", h.conns[ci[i]], h.dt, h.hypers[i], desc["reduction"]) for i in range(2)]
    g = torch.Generator().manual_seed(desc["seed"] + 9)
    B = desc["B"]
    differing = "+".join(sorted(k for k in desc["hypers"][0] if desc["hypers"][0][k] != desc["hypers"][1][k]))
    for t in range(desc["T"]):
        rdesc = {**desc, "T": t + 1}
        pres = [torch.rand((B, 3), generator=g) < desc["p"] for _ in range(len(h.conns))]
        posts = [torch.rand((B, 2), generator=g) < desc["p"] for _ in range(len(h.neurons))]
        reward = None
        if name in tr.THREE_FACTOR:
            reward = (torch.randn(B, generator=g, dtype=torch.float64) if desc["reward"] == "tensor"
                      else (1.0 if desc["reward"] == "scalar+" else -1.0) * (0.2 + float(torch.rand(1, generator=g))))
        delays = [None if c.delayedby is None else c.delay.detach().clone() for c in h.conns]
        if topo == "two_layers" and not frozen and t >= desc.get("freeze_at", 10 ** 9):
            # the first layer stops training (eval mode) while the second keeps training under the same trainer
            h.layers[0].eval()
            frozen = True
            ctx.count("multicell_frozen_layer_cases")
        # three-factor trainers: a call may name the cells it applies to; the others get no update from that call
        only = None
        if name in tr.THREE_FACTOR and desc.get("partial_calls") and t % 3 == 1:
            only = [["a"], ["b"], []][(t // 3 + desc["seed"]) % 3]
            ctx.count("multicell_calls_limited_to_named_cells")
        try:
            outs = h.step_apply(pres, posts, reward, desc["scale"], cells=only)
        except Exception as e:  # noqa: BLE001
            ctx.violation(ctx.exc_signature(e, f"step.multicell.{name}"), f"{type(e).__name__}: {str(e)[:200]}", rdesc)
            return False
        ctx.case(f"{prop}/multicell-{topo}/{name}/differ:{differing}/{desc['reward'] if name in tr.THREE_FACTOR else '-'}/scale{desc['scale']}/B{B}")
        ctx.count("multicell_steps_checked")
        exp = [orc.step(pres[ci[i]], posts[ni[i]], delays[ci[i]], reward, desc["scale"]) for i, orc in enumerate(orcs)]
        if only is not None:
            zz = np.zeros_like(exp[0][0])
            exp = [e if nm in only else (zz, zz) for e, nm in zip(exp, ("a", "b"))]
        if topo == "two_layers" and frozen:
            z = np.zeros_like(exp[0][0])
            per_conn = [((z, z), "frozen"), (exp[1], "second")]      # no update for the cell that is not training
        elif topo in ("fan_in", "two_layers"):
            per_conn = [(exp[0], "first"), (exp[1], "second")]
        else:
            # both cells write into the one connection's accumulator, which sums the contributions
            per_conn = [((exp[0][0] + exp[1][0], exp[0][1] + exp[1][1]), "shared")]
            ctx.count("multicell_shared_connection_steps")
        for (pos, neg, dparam), ((epos, eneg), which) in zip(outs, per_conn):
            gp, gn = _np(pos), _np(neg)
            if not (np.allclose(gp - gn, epos - eneg, rtol=1e-8, atol=1e-10) and np.allclose(_np(dparam), epos - eneg, rtol=1e-8, atol=1e-10)):
                mech = (f"{name}.multicell.{which}_cell_update_ne_its_own_rule" if topo != "fan_out"
                        else f"{name}.multicell.shared_connection_update_ne_sum_of_cell_rules")
                ctx.violation(mech, f"step {t}: {which} (hyper-parameters differ in {differing}) changed by something other than the cells' own rules",
                              rdesc, {"max_err": float(np.abs(gp - gn - epos + eneg).max())})
                return False
            if not (np.allclose(gp, epos, rtol=1e-8, atol=1e-10) and np.allclose(gn, eneg, rtol=1e-8, atol=1e-10)):
                ctx.violation(f"{name}.multicell.parts_ne_rule", f"step {t}: {which}: LTP/LTD split differs", rdesc)
                return False
    return True


def run_case(ctx, desc, prop="C08", extra_check=None):
    if ctx.counters.get("sampled." + desc["part"], 0) == 0:
        ctx.count("sampled." + desc["part"])
        ctx.sample(desc)
    if desc["part"] == "multicell":
        return run_multicell(ctx, desc, prop)
    if desc["part"] == "fracdelay":
        return run_fracdelay(ctx, desc, prop)
    if desc["part"] == "exhaustive":
        d = {**desc, "conn": "dense", "B": 1, "dt": 1.0, "seed": 0}
        # all pre neurons share the pre history, all post neurons the post history: every synapse is the 1x1 cell
        pre, post = _histories(desc)
        rewards = None
        ctx.count("exhaustive_histories")
        return run_trainer_history(ctx, d, prop, pre, post, rewards, extra_check)
    g = torch.Generator().manual_seed(desc["seed"])
    B, T = desc["B"], desc["T"]
    probe = tr.Harness("STDP", desc["conn"], dt=desc["dt"], B=B, delay_steps=None, seed=0)
    ish, osh = (B,) + tuple(probe.conn.inshape), (B,) + tuple(probe.conn.outshape)
    pre = [torch.rand(ish, generator=g) < desc["p"] for _ in range(T)]
    post = [torch.rand(osh, generator=g) < desc["p"] for _ in range(T)]
    rewards = None
    if desc["trainer"] in tr.THREE_FACTOR:
        if desc["reward"] == "tensor":
            rewards = [torch.randn(B, generator=g, dtype=torch.float64) for _ in range(T)]
        else:
            sgn = 1.0 if desc["reward"] == "scalar+" else -1.0
            rewards = [sgn * float(torch.rand(1, generator=g)) for _ in range(T)]
    return run_trainer_history(ctx, desc, prop, pre, post, rewards, extra_check)
