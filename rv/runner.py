"""./check entry point: shards a property's workload over subprocesses, aggregates the monitors'
observations, matches known findings, writes evidence and replay files, sets the exit code.

exit 0  held (possibly with KNOWN-FINDING lines)
exit 1  VIOLATION property=<id> replay=<path>
exit 2  INCONCLUSIVE property=<id> reason=...
"""

from __future__ import annotations

import argparse
import importlib
import json
import os
import shutil
import subprocess
import sys
import tempfile
import time

VERIF = os.path.realpath(os.path.join(os.path.dirname(__file__), ".."))
PY = "/venv/bin/python"

# shards per tier are FIXED (not a function of the core count) so a seed reproduces the same cases
DEFAULT_SHARDS = {"quick": 8, "thorough": 32}
# soft deadline per shard (s): workloads are sized by operation counts; hitting this only lowers coverage
DEFAULT_SOFT = {"quick": 150.0, "thorough": 1500.0}


def _env(repo):
    env = dict(os.environ)
    env["PYTHONPATH"] = f"{repo}{os.pathsep}{VERIF}"
    env["PYTHONDONTWRITEBYTECODE"] = "1"
    env["PYTHONHASHSEED"] = "0"
    env["OMP_NUM_THREADS"] = "1"
    env["MKL_NUM_THREADS"] = "1"
    env["INFERNO_VERIF"] = "1"
    return env


def _monitor_meta(prop):
    """Static per-property metadata (kept out of the monitor modules so the runner never imports torch)."""
    from rv.meta import META

    class _M:
        pass

    m = _M()
    for k, v in META[prop].items():
        setattr(m, k, v)
    return m


def load_findings():
    p = os.path.join(VERIF, "known_findings.json")
    if not os.path.exists(p):
        return []
    with open(p) as f:
        return json.load(f)["findings"]


def run_shards(prop, tier, seed, nshards, repo, soft, jobs, extra=None):
    tmp = tempfile.mkdtemp(prefix=f"rv-{prop}-", dir=os.environ.get("VERIF_SCRATCH") or None)
    pending = list(range(nshards))
    running = {}
    results, errors = [], []
    hard = soft * 3 + 120
    try:
        while pending or running:
            while pending and len(running) < jobs:
                i = pending.pop(0)
                out = os.path.join(tmp, f"s{i}.json")
                cmd = [PY, "-m", "rv.shard", "--prop", prop, "--tier", tier, "--seed", str(seed),
                       "--shard", str(i), "--nshards", str(nshards), "--repo", repo,
                       "--verif", VERIF, "--out", out, "--soft", str(soft)] + (extra or [])
                log = open(os.path.join(tmp, f"s{i}.log"), "w")
                p = subprocess.Popen(cmd, cwd=VERIF, env=_env(repo), stdout=log, stderr=subprocess.STDOUT)
                running[i] = (p, time.monotonic(), out, log)
            time.sleep(0.05)
            for i in list(running):
                p, t0, out, log = running[i]
                rc = p.poll()
                if rc is None:
                    if time.monotonic() - t0 > hard:
                        p.kill()
                        p.wait()
                        log.close()
                        errors.append({"shard": i, "kind": "watchdog", "detail": f"killed after {hard:.0f}s"})
                        del running[i]
                    continue
                log.close()
                del running[i]
                if rc == 0 and os.path.exists(out):
                    with open(out) as f:
                        results.append(json.load(f))
                else:
                    with open(os.path.join(tmp, f"s{i}.log")) as f:
                        tail = f.read()[-3000:]
                    errors.append({"shard": i, "kind": "crash", "detail": f"rc={rc}\n{tail}"})
    finally:
        shutil.rmtree(tmp, ignore_errors=True)
    return results, errors


def aggregate(results):
    agg = {"evaluations": 0, "abstractions": {}, "trivial": 0, "counters": {}, "violations": [],
           "violation_counts": {}, "samples": [], "capped": 0, "guard_skips": 0, "guard_compared": 0,
           "lines_hit": {}, "fatal": []}
    for r in sorted(results, key=lambda r: r.get("shard", 0)):
        agg["evaluations"] += r["evaluations"]
        agg["trivial"] += r["trivial"]
        agg["capped"] += 1 if r["capped"] else 0
        agg["guard_skips"] += r["guard_skips"]
        agg["guard_compared"] += r["guard_compared"]
        for k, v in r["abstractions"].items():
            agg["abstractions"][k] = agg["abstractions"].get(k, 0) + v
        for k, v in r["counters"].items():
            agg["counters"][k] = agg["counters"].get(k, 0) + v
        for k, v in r["violation_counts"].items():
            agg["violation_counts"][k] = agg["violation_counts"].get(k, 0) + v
        agg["violations"].extend(r["violations"])
        if len(agg["samples"]) < 6:
            agg["samples"].extend(r["samples"][:2])
        for k, v in r.get("lines_hit", {}).items():
            agg["lines_hit"].setdefault(k, set()).update(v)
        if r.get("fatal"):
            agg["fatal"].append(r["fatal"])
    return agg


def main(argv=None):
    ap = argparse.ArgumentParser(prog="check")
    ap.add_argument("prop")
    ap.add_argument("--tier", default=os.environ.get("VERIF_TIER", "quick"), choices=["quick", "thorough"])
    ap.add_argument("--seed", type=int, default=int(os.environ.get("VERIF_SEED", "0")))
    ap.add_argument("--replay", default=None)
    ap.add_argument("--jobs", type=int, default=0)
    ap.add_argument("--shards", type=int, default=0)
    ap.add_argument("--no-evidence", action="store_true")
    a = ap.parse_args(argv)
    prop = a.prop.upper()
    repo = os.path.realpath(os.environ.get("VERIF_REPO", "/repo"))
    t0 = time.monotonic()

    meta = _monitor_meta(prop)
    jobs = a.jobs or min(os.cpu_count() or 1, 16)

    if a.replay:
        out = tempfile.mktemp(prefix="rv-replay-")
        cmd = [PY, "-m", "rv.shard", "--prop", prop, "--tier", a.tier, "--seed", str(a.seed), "--repo", repo,
               "--verif", VERIF, "--out", out, "--replay", os.path.abspath(a.replay)]
        rc = subprocess.call(cmd, cwd=VERIF, env=_env(repo))
        if rc != 0 or not os.path.exists(out):
            print(f"INCONCLUSIVE property={prop} reason=replay-crashed rc={rc}")
            return 2
        with open(out) as f:
            r = json.load(f)
        os.unlink(out)
        if r["violation_counts"]:
            for m, n in r["violation_counts"].items():
                print(f"replay: mechanism={m} occurrences={n}")
            print(f"VIOLATION property={prop} replay={a.replay}")
            return 1
        print(f"replay: no violation reproduced for property={prop}")
        return 0

    nshards = a.shards or getattr(meta, "SHARDS", DEFAULT_SHARDS)[a.tier]
    soft = getattr(meta, "SOFT", DEFAULT_SOFT)[a.tier]
    results, errors = run_shards(prop, a.tier, a.seed, nshards, repo, soft, jobs)

    # optional second workload: the repository's own tests under the model-free invariants
    suite = None
    if a.tier == "thorough" and getattr(meta, "HAS_SUITE", False):
        sres, serr = run_shards(prop, a.tier, a.seed, 1, repo, 1500.0, 1, extra=["--suite"])
        errors.extend(serr)
        if sres:
            suite = sres[0]
            results.append(suite)

    agg = aggregate(results)
    findings = load_findings()
    open_keys = {f["mechanism"]: f for f in findings if f["property"] == prop and f["status"] == "open"}

    known_hit, unlisted = {}, {}
    for mech, n in agg["violation_counts"].items():
        (known_hit if mech in open_keys else unlisted)[mech] = n

    # replay files for unlisted violations
    replay_paths = {}
    if unlisted:
        rdir = os.path.join(os.environ.get("VERIF_REPLAY_DIR") or os.path.join(VERIF, "replays"), prop)
        os.makedirs(rdir, exist_ok=True)
        seen = {}
        for v in agg["violations"]:
            m = v["mechanism"]
            if m not in unlisted:
                continue
            k = seen.get(m, 0)
            seen[m] = k + 1
            safe = "".join(c if c.isalnum() or c in "._-" else "_" for c in m)[:120]
            path = os.path.join(rdir, f"{safe}-{k}.json")
            with open(path, "w") as f:
                json.dump({"property": prop, "seed": a.seed, "tier": a.tier, **v}, f, indent=1)
            replay_paths.setdefault(m, path)

    # verdict
    reasons = []
    floor = getattr(meta, "FLOOR", {"quick": 2, "thorough": 2})[a.tier]
    distinct = len(agg["abstractions"])
    if errors:
        reasons.append("shard-" + errors[0]["kind"])
    if agg["fatal"]:
        reasons.append("harness-error")
    if distinct < max(2, floor):
        reasons.append(f"too-few-nontrivial-cases({distinct}<{floor})")
    for name in getattr(meta, "REQUIRED", []):
        if agg["counters"].get(name, 0) <= 0:
            reasons.append(f"monitor-never-evaluated({name})")
    tot_guard = agg["guard_skips"] + agg["guard_compared"]
    if tot_guard and agg["guard_skips"] > 0.05 * tot_guard:
        reasons.append("guard-band-skips>5%")

    if unlisted:
        verdict = "violated"
    elif reasons:
        verdict = "inconclusive"
    else:
        verdict = "held"

    wall = time.monotonic() - t0
    if not a.no_evidence:
        from rv import evidence

        evidence.write(prop, a.tier, a.seed, meta, agg, errors, known_hit, unlisted, verdict, reasons,
                       wall, nshards, repo, suite)

    for mech in sorted(known_hit):
        f = open_keys[mech]
        print(f"KNOWN-FINDING: property={prop} {f['what']} [mechanism={mech} occurrences={known_hit[mech]}]")
    print(f"{prop} tier={a.tier} seed={a.seed} shards={nshards} evaluations={agg['evaluations']} "
          f"distinct_nontrivial={distinct} wall={wall:.1f}s verdict={verdict}")
    if verdict == "violated":
        for mech in sorted(unlisted):
            print(f"  unlisted mechanism={mech} occurrences={unlisted[mech]}")
            first = next(v for v in agg["violations"] if v["mechanism"] == mech)
            print(f"    {first['what']}")
        for mech in sorted(unlisted):
            print(f"VIOLATION property={prop} replay={os.path.relpath(replay_paths[mech], VERIF)}")
        return 1
    if verdict == "inconclusive":
        for e in errors[:3]:
            print(f"  shard {e['shard']} {e['kind']}: {e['detail'][-1500:]}")
        for ft in agg["fatal"][:2]:
            print("  " + ft)
        print(f"INCONCLUSIVE property={prop} reason={';'.join(reasons)}")
        return 2
    return 0


if __name__ == "__main__":
    sys.exit(main())
