"""Argument coverage (diagnostic, VERIF_ARGCOV=1): for every function defined in the property's anchor files, which optional
parameters were ever called with a value other than their default.  A sys.monitoring PY_START listener; not part of a verdict."""

from __future__ import annotations

import importlib
import inspect
import os
import sys

_TOOL = 4
_MISSING = object()


def _functions(mod):
    seen = set()
    for name, obj in vars(mod).items():
        if inspect.isfunction(obj) and obj.__module__ == mod.__name__:
            yield obj.__qualname__, obj
        elif inspect.isclass(obj) and obj.__module__ == mod.__name__:
            for mname, m in vars(obj).items():
                fns = []
                if inspect.isfunction(m):
                    fns = [(mname, m)]
                elif isinstance(m, (staticmethod, classmethod)):
                    fns = [(mname, m.__func__)]
                elif isinstance(m, property):
                    fns = [(mname + ".getter", m.fget), (mname + ".setter", m.fset)]
                if getattr(m, "__isabstractmethod__", False) or mname in ("extra_repr", "__repr__"):
                    continue
                for n2, fn in fns:
                    if getattr(fn, "__isabstractmethod__", False):
                        continue
                    if fn is not None and id(fn) not in seen and inspect.isfunction(fn):
                        seen.add(id(fn))
                        yield f"{obj.__qualname__}.{n2}", fn


class ArgCov:
    def __init__(self, repo_root, rel_files):
        self.index = {}
        self.calls = {}
        self.varied = {}
        for rel in rel_files:
            modname = rel[:-3].replace("/", ".")
            if modname.endswith(".__init__"):
                modname = modname[: -len(".__init__")]
            try:
                mod = importlib.import_module(modname)
            except Exception:  # noqa: BLE001
                continue
            for qual, fn in _functions(mod):
                try:
                    sig = inspect.signature(fn)
                except (TypeError, ValueError):
                    continue
                params = [(p.name, p.default) for p in sig.parameters.values()
                          if p.default is not inspect.Parameter.empty and p.kind in (p.POSITIONAL_OR_KEYWORD, p.KEYWORD_ONLY)]
                key = f"{rel}:{qual}"
                self.index[fn.__code__] = (key, params)
                self.calls[key] = 0
                self.varied[key] = {n: False for n, _ in params}
        self.on = False

    @staticmethod
    def _same(v, d):
        if v is d:
            return True
        try:
            return type(v) is type(d) and isinstance(d, (bool, int, float, str, tuple, type(None))) and v == d
        except Exception:  # noqa: BLE001
            return False

    def start(self):
        mon = sys.monitoring
        try:
            mon.use_tool_id(_TOOL, "rv-argcov")
        except ValueError:
            return
        index, calls, varied, same = self.index, self.calls, self.varied, self._same

        def on_start(code, off):
            ent = index.get(code)
            if ent is None:
                return mon.DISABLE
            key, params = ent
            calls[key] += 1
            if params:
                loc = sys._getframe(1).f_locals
                vr = varied[key]
                for n, d in params:
                    if not vr[n] and not same(loc.get(n, _MISSING), d):
                        vr[n] = True

        mon.register_callback(_TOOL, mon.events.PY_START, on_start)
        mon.set_events(_TOOL, mon.events.PY_START)
        self.on = True

    def stop(self):
        if self.on:
            mon = sys.monitoring
            mon.set_events(_TOOL, 0)
            mon.register_callback(_TOOL, mon.events.PY_START, None)
            mon.free_tool_id(_TOOL)
            self.on = False

    def result(self):
        return {"calls": self.calls, "varied": self.varied}
