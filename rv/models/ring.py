"""Reference model of RecordTensor: a plain list of observations.

hist[k] is "the observation k steps before the write position" (k taken modulo N).
The model never computes a storage index; pointer movement is a rotation of the list.
Observations are numpy arrays of the observation shape (per-element columns are handled
by explicit loops over elements, so tensor offsets need no index arithmetic either).
"""

from __future__ import annotations

import itertools

import numpy as np


class Ring:
    def __init__(self, n, shape, fill=0.0):
        self.n = n
        self.shape = tuple(shape)
        self.hist = [np.full(self.shape, fill, dtype=np.float64) for _ in range(n)]
        self.pointer = 0  # only what align/reset/incr/decr say it must be

    def clone(self):
        r = Ring.__new__(Ring)
        r.n, r.shape, r.pointer = self.n, self.shape, self.pointer
        r.hist = [h.copy() for h in self.hist]
        return r

    # ---- pointer movement = rotation -------------------------------------------------
    def incr(self, pos=1):
        for _ in range(pos % self.n if pos >= 0 else 0):
            self.hist = [self.hist[-1]] + self.hist[:-1]
        if pos < 0:
            return self.decr(-pos)
        self.pointer = _wrap_add(self.pointer, pos, self.n)

    def decr(self, pos=1):
        if pos < 0:
            return self.incr(-pos)
        for _ in range(pos % self.n):
            self.hist = self.hist[1:] + [self.hist[0]]
        self.pointer = _wrap_add(self.pointer, -pos, self.n)

    def align(self, index):
        self.pointer = index % self.n  # contents relative to the write position unchanged

    def reset(self, fill):
        if fill is None:
            self.align(0)
        else:
            self.hist = [np.full(self.shape, float(fill), dtype=np.float64) for _ in range(self.n)]
            self.pointer = 0

    # ---- single observations --------------------------------------------------------------
    def read(self, k):
        return self.hist[k % self.n]

    def write(self, obs, k):
        self.hist[k % self.n] = np.array(obs, dtype=np.float64).reshape(self.shape).copy()

    def push(self, obs):
        self.write(obs, 0)
        self.incr(1)

    def pop(self):
        self.decr(1)
        return self.read(0)

    def peek(self):
        return self.read(1)

    # ---- ranges -------------------------------------------------------------------------------
    def _steps(self, length, off, forward):
        """steps-before-pointer of result position t = 0..L-1 (oldest -> newest)."""
        if forward:
            return [off - t for t in range(length)]
        return [off + (length - 1) - t for t in range(length)]

    def readrange(self, length, offset, forward):
        out = np.zeros(self.shape + (length,), dtype=np.float64)
        for e in itertools.product(*[range(s) for s in self.shape]):
            off = int(offset[e]) if isinstance(offset, np.ndarray) else int(offset)
            for t, k in enumerate(self._steps(length, off, forward)):
                out[e + (t,)] = self.hist[k % self.n][e]
        return out

    def writerange(self, obs, offset, forward):
        obs = np.asarray(obs, dtype=np.float64)
        length = obs.shape[-1]
        # copy-on-write so aliasing of list cells (after rotations) cannot leak
        self.hist = [h.copy() for h in self.hist]
        for e in itertools.product(*[range(s) for s in self.shape]):
            off = int(offset[e]) if isinstance(offset, np.ndarray) else int(offset)
            for t, k in enumerate(self._steps(length, off, forward)):
                self.hist[k % self.n][e] = obs[e + (t,)]

    def as_array(self):
        """(N, *shape): row k = hist[k]."""
        return np.stack(self.hist, 0)


def _wrap_add(p, d, n):
    # walks one step at a time: no modular shortcut shared with the implementation
    step = 1 if d >= 0 else -1
    for _ in range(abs(d)):
        p += step
        if p == n:
            p = 0
        elif p < 0:
            p = n - 1
    return p
