"""Static per-property metadata read by the runner and tools/gen_manifest.py (no torch import needed)."""
_NOTE = ("Trusted: CPython 3.12, PyTorch CPU kernels, the small reference models under rv/models. Decides only the "
         "executions the generators produce (counts in the evidence file); CPU, no autograd.")
META = {}
MANIFEST_TEXT = {}
NOT_APPLICABLE = {}

def _add(pid, *, rule, required, floor, text, technique, assumptions=(), exhaustive=None, shards=None, soft=None,
         has_suite=False):
    m = {"RULE": rule, "REQUIRED": list(required), "FLOOR": floor, "ASSUMPTIONS": list(assumptions)}
    if exhaustive:
        m["EXHAUSTIVE"] = exhaustive
    if shards:
        m["SHARDS"] = shards
    if soft:
        m["SOFT"] = soft
    if has_suite:
        m["HAS_SUITE"] = True
    META[pid] = m
    MANIFEST_TEXT[pid] = {"text": text, "note": _NOTE, "technique": technique}


_add(
    "C01",
    rule="inductive sweep: every single public operation (offsets 0..2N, lengths 1..N, fwd/bwd, int / uniform-tensor / per-element-distinct-tensor offset, inplace/not, same/foreign obs dtype) applied to a freshly id-filled ring for N in 1..4 x every pointer x {buffer, Parameter, None} storage, plus sampled 2-3 op compositions and random 50-300 op histories (N<=30, shapes up to 3-D, float32/float64/int64/bool); one evaluation = one operation applied and judged (return value + full state read back through read(k) and through storage). A case is non-trivial unless it is incr/decr by 0; distinct = distinct (op, N, pointer, storage, dtype, offset class, length class, direction, offset kind, inplace, foreign dtype) abstractions.",
    required=["records_given_non_contiguous_storage", "state_readbacks", "invariant_evaluations", "ops.readrange", "ops.writerange", "ops.push", "autocreate_checked", "range_ops_with_narrow_integer_offset_tensors"],
    floor={"quick": 500, "thorough": 1500},
    text="Held on every execution explored: each public RecordTensor operation is applied to the real class and judged, with a full state read-back, against an independent list-of-observations model using unique-id values; the single-operation x pointer x storage-kind space is enumerated completely for N<=4, longer histories are sampled. Exploration is the right level: the property is over all histories and a monitor decides only those produced.",
    technique="runtime monitoring: reference-model (list ring) monitor + icontract class invariant on the real RecordTensor, exhaustive single-op sweep N<=4 plus random histories",
    assumptions=["reference model rv/models/ring.py (list of observations, rotation for pointer moves)"],
    exhaustive={"quick": ["all single operations x pointer positions x storage kinds, N in {1,2,3,4}, shapes () and (2,)"], "thorough": ["all single operations x pointer positions x storage kinds, N in {1,2,3,4}, shapes () and (2,)"]},
)

_add(
    "C02",
    rule="records N in {1,2,3,4,5,8} x dt in {1,0.5,0.1,1.3} x every pointer; select/insert calls with times constructed as k*dt+delta (delta in {0, +-tol/2, +-2tol (1e-9 when tol=0), dt/4, dt/2, 3dt/4, dt-2tol}), scalar / tensor / tensor-with-extra-dim times, per-element mixed on/off-grid, offsets 0..N, tol in {0,1e-6,1e-3}, spy and every shipped interpolation/extrapolation, in-place or not, plus out-of-range calls; one evaluation = one select/insert call judged (spy arguments, value, all slots). distinct = (op, mode, N, dt, tol, grid class, range edge, offset class, function, dtype, inplace) abstractions.",
    required=["real_valued_reads_of_nonfloat_records", "select_calls", "insert_calls", "oor_calls", "spy_interp_args_checked", "spy_extrap_args_checked", "roundtrips", "adjusted_extrapolations", "scalar_tensor_agreements", "expected_errors_seen", "nonfloat_storage_selects", "nonfloat_elapsed_checked", "inserts_of_observations_in_another_dtype", "ongrid_inserts_over_nonfinite_slots"],
    floor={"quick": 300, "thorough": 1500},
    text="Held on every select/insert call explored: times are constructed from an integer step and a symbolic offset so the oracle knows the slot, grid membership, bracketing samples and elapsed time; a spy interpolation/extrapolation records the arguments the real code passes, every slot of storage is compared after each insert, scalar and tensor forms are cross-checked and range errors are demanded.",
    technique="runtime monitoring: argument-spy oracle + list-model comparison on the real RecordTensor.select/insert over generated on/off-grid times",
    assumptions=["what is stored is read through RecordTensor.read / the ring model validated by C01"],
)

_add(
    "C13",
    rule="(a) RecordTensor built with (dt, duration, inclusive) incl. non-representable ratios over 7 storage kinds, id-filled to several fill levels and pointer positions, then 1-4 assignments of dt / duration / inclusive judged by the literal size formula and read(k) before/after; (b) add/edit/remove of shape constraints on an initialised record; (c) random reconstrain add/edit/remove + value assignment sequences on ShapedTensor (strict and non-strict, positive and negative dims, buffer/Parameter/None/empty) against a dict model. One evaluation = one assignment / reconstrain judged. distinct = (part, operation, grow/shrink/no-op, storage state and kind, size classes, strictness, dim sign) abstractions.",
    required=["resize_readbacks", "temporal.grow.initialised", "temporal.shrink.initialised", "temporal.grow.uninitialised", "temporal.shrink.uninitialised", "recshape_ops", "shaped_reconstrain_ops", "shaped_refusals", "valid_flag_checks", "flag_toggles", "compatible_queries", "lazy_recshape_ops", "sibling_isolation_checks", "resizes_of_records_with_other_element_types", "resizes_after_align_to_a_negative_index"],
    floor={"quick": 150, "thorough": 250},
    text="Held on every resize / reconstrain explored: each assignment of dt, duration, inclusive or a shape constraint on the real RecordTensor / ShapedTensor is followed by a comparison of the record size with the literal formula, of read(k) with the values read before (unique ids; zeros in new slots) and of the constraint bookkeeping with a dictionary model, including refusals that must have no side effects.",
    technique="runtime monitoring: before/after observation monitor + dict reference model on the real temporal setters and reconstrain over generated configurations",
    assumptions=["read(k) (validated by C01) is the observation k steps before present"],
)

_add(
    "C20",
    rule="(a) interp(extrap(x)) = x for the 10 shipped pairs at 11 sample times in [0, dt] (linear pairs: open interval), "
         "linear interpolation bracket laws; (b) per distribution and parameter set: exp(log density) = density, "
         "trapezoid / cumulative sum of the density = CDF and -> 1, logcdf = log cdf, numeric moments = mean / variance, "
         "density = its textbook definition (Poisson), params_mv round trip (and the returned parameters pass validate), "
         "with float64-tensor and Python-float arguments, including narrow distributions (scale 1e-4 .. 1e-1) whose "
         "variance is compared relatively only; (c) ISI of random rasters (time-first and time-last, ragged, empty); (d) Victor-Purpura laws on "
         "triples of spike-time vectors and against an independent dynamic programme. One evaluation = one "
         "(pair, sample time) / (distribution, parameters) / raster / triple; distinct = abstractions of those.",
    required=["roundtrip_laws", "adjusted_bracket_laws", "linear_bracket_laws", "dist_laws", "isi_trains_checked", "vp_laws", "validity_queries", "narrow_moment_checks", "vp_cases_with_other_spike_time_dtypes", "roundtrips_with_nonfinite_brackets", "decay_roundtrips_with_a_stray_keyword", "isi_rasters_in_other_dtypes", "roundtrips_with_other_data_or_time_dtypes", "density_laws_at_extreme_scales", "vp_cases_with_other_cost_forms"],
    floor={"quick": 100, "thorough": 200},
    text="Held on every input explored: algebraic laws that tie the numerical helpers to each other and to their "
         "definitions are evaluated on the real functions over dense grids and random inputs; a law that fails is "
         "reported with the offending parameters.",
    technique="runtime monitoring: algebraic-law (metamorphic) invariants evaluated on the real helper functions over dense grids",
)

_add(
    "C19",
    rule="one evaluation = one generator seed x one encoder configuration (exponential-interval / Bernoulli / "
         "Poisson-interval / inhomogeneous Bernoulli; functional form or Module; offline or online; dt in {0.1,0.2,0.3,0.5,1,2,4}; "
         "refractory None or 1-9 steps written as k*dt; compensation on/off; max frequency 5 Hz up to 0.9 of the documented "
         "frequency*refrac<1000 limit, and for the Bernoulli encoders also above one expected spike per step (clamped); 1-300 steps; intensities in [0,1] with exact zeros and ones), run twice from the "
         "same generator state. Non-trivial: the refractory encoder, or any case with a zero-intensity element; "
         "distinct = (encoder, online, module, dt, refractory, compensation, steps class, zero pattern, rank) abstractions.",
    required=["input_tensors_checked_after_two_encodings", "shape_dtype_checks", "reproducibility_checks", "zero_intensity_elements", "refractory_gaps_checked", "zero_intensity_element_steps_in_storms", "setter_configured_encoders", "uncompensated_above_compensation_limit", "intensity_tensors_not_row_major", "online_runs_collected_before_use", "setter_vs_constructor_train_comparisons", "negative_zero_intensity_elements"],
    floor={"quick": 200, "thorough": 400},
    text="Held on every generator seed explored: the real encoders are run over a seed sweep and every output is "
         "checked for dtype, shape / slice count, silence of zero-intensity elements, the minimum spike gap of the "
         "refractory encoder (on indices and through inferno.isi) and bit-identical reproduction from a cloned generator state.",
    technique="runtime monitoring: output invariants on the real encoders over a generator-seed sweep",
)

_add(
    "C16",
    has_suite=True,
    rule="(a) random 8-40 operation sequences over {register, deregister, train, eval, module call, manual call with "
         "force / ignore_mode, enable-flag switches, delete + gc.collect, re-create} on a generic Hook (pre, post or "
         "both) and a StateHook subclass (pre or post) attached to an nn.Module / inferno.Module probe that logs the "
         "order of events; every operation is one evaluation judged by a firing state machine; (b) Clamping and "
         "Normalization hooks on a plain tensor attribute, a buffer, connection.weight and updater 'parent.weight' with "
         "random tensors, bounds (zero and negative upper bounds too), orders (1, 2, 0.5, 3, inf), scales (negative too) and dims; "
         "post-conditions are evaluated against the CONFIGURED values inside every firing by a class-level wrapper. Non-trivial: everything except bare mode switches; "
         "distinct = (hook kind, operation, registered, alive, armed, position, probe type) / (hook, target, parameters).",
    required=["module_calls_checked", "manual_calls_checked", "deregistrations_checked", "collections_checked",
              "postcondition_evaluations.clamp", "postcondition_evaluations.norm", "hook_order_checks", "raising_call_checks", "postcondition_evaluations.complex_scale", "clamped_integer_typed_targets"],
    floor={"quick": 200, "thorough": 400},
    text="Held on every operation sequence explored: the number and position of hook firings per module call and per "
         "manual call is compared with an explicit registered / enabled / mode / alive state machine, handle counts are "
         "compared with the baseline after deregistration and after garbage collection, and the clamp / norm "
         "post-conditions are asserted inside each firing of the real Clamping / Normalization hooks.",
    technique="runtime monitoring: firing state-machine monitor over random lifecycle sequences + post-condition assertions hooked into each firing",
)

_add(
    "C10",
    rule="(a) random 4-18 operation interleavings of part contributions (pair / pos-only / neg-only / bare tensor) from "
         "up to three pseudo-trainers, update(clear or not), updatesome, clear and double update on the updater of a real "
         "LinearDense (weight, bias, delay), for every half / full bounding kernel with limits and powers, reductions "
         "{default, sum, mean, amax, custom} installed through the constructor or the accumulator, float32/float64, "
         "parameters inside and outside the limits; each operation is one evaluation judged against a list-of-parts "
         "model with float64 kernels from their definitions; plus a permuted-order twin comparison per case; (b) 5000 "
         "consecutive updates per run under multiplicative / scaled multiplicative / scaled power / sharp bounding "
         "with reduced magnitudes at the stated limit, range invariant checked after every application. distinct = "
         "(operation, bound, half, reduction and route, dtype, inside/outside, contribution form) abstractions.",
    required=["longruns_with_single_precision_parts_on_a_double_precision_parameter", "contributions", "applications", "second_applications", "permutation_checks",
              "custom_reduction_applications", "longrun_applications", "bound_removals", "discarded_pending_updates", "one_sided_full_bound_cases", "all_zero_parts_contributed"],
    floor={"quick": 150, "thorough": 300},
    text="Held on every interleaving explored: parameter values after each update / updatesome / clear on the real "
         "Updater are compared with old + U(reduce(pos)) - L(reduce(neg)) computed from recorded parts, a spy reduction "
         "shows which reduction is called, contribution order is permuted on a twin, and range / sharp invariants are "
         "asserted after each of thousands of consecutive applications.",
    technique="runtime monitoring: list-of-parts reference model + spy reduction + long-run range invariant on the real Updater / Accumulator and bounding kernels",
)

_add(
    "C07",
    rule="10 reducer classes x dt {1,0.5,1.3} x duration {0, dt, 2.5dt, 3dt, 6dt} x inclusive x inplace x time "
         "constants / amplitudes (negative too) / scales / targets and tolerances / alphas / event-initial values x "
         "boolean and real observation sequences of 12-40 steps with interleaved clear(keepshape T/F), dt "
         "reassignment (duration 0), scalar and per-element view times on and off the grid and dump(); plus the nine "
         "functional trace forms on 5-30 step histories. One evaluation = one step / view / dump / clear judged "
         "against the closed form over the recorded event list. distinct = (reducer, operation, first/later, record "
         "size class, inplace, observation kind, dt, events/quiet, view mode and grid position) abstractions.",
    required=["configuration_checks", "steps_checked", "views_checked", "dumps_checked", "clears", "functional_steps_checked", "dt_reassignments", "nonfloat_observations", "views_with_tolerance", "observations_overwritten_by_the_caller_afterwards", "observations_with_zero_contribution_events"],
    floor={"quick": 250, "thorough": 600},
    text="Held on every history explored: after each observation the value reported by the real reducer (run in "
         "float64) is compared with the closed-form sum over the recorded event list, views are compared with the value "
         "the oracle had that many steps earlier (or the documented interpolation of its two neighbours), dump order "
         "and clear semantics are checked, and the functional trace forms are checked on the same kind of histories.",
    technique="runtime monitoring: closed-form reference model over the recorded event list against the real reducers and trace functions",
)

_add(
    "C04",
    rule="4 synapse classes x dt {1,0.5,1.3} x maximum delay {0, dt, 2.5dt, 3dt, 5dt} x interpolation {previous, "
         "nearest} x tolerance {0,1e-3} x current/spike overbound {value, None} x batch 1-3 x shapes x inplace, spike "
         "trains {random, all-ones, single impulse, alternating, silent} of 8-28 steps with injected currents for "
         "delta-plus; after every step the forward return, .current and .spike are judged, and generated per-element "
         "selectors (on/off grid inside the range, at 0 and at the maximum delay, inside the tolerance band, beyond "
         "both ends, with and without an extra selector axis) are judged through current_at / spike_at; an in-place "
         "twin is compared bit-for-bit. One evaluation = one step or one delayed query; distinct = (synapse, dt, "
         "delay, tolerance, interpolation, query class, overbound setting, train, inplace, batch) abstractions.",
    required=["synapses_with_the_charge_retuned_after_construction", "queries_with_nonfinite_out_of_bounds_value", "steps_checked", "queries_checked", "twin_comparisons", "queries.in", "queries.beyond", "queries.negative",
              "queries.limit", "queries.band", "queries.snap", "clears", "component_reads_checked", "synapses_redelayed_through_the_setter"],
    floor={"quick": 300, "thorough": 800},
    text="Held on every spike train and selector explored: the real synapses (float64) are stepped on generated trains, "
         "the reported current is compared with the closed-form impulse-response sum over the recorded inputs, delayed "
         "reads are compared with what the oracle had that long ago (or the documented interpolation / overbound "
         "rule), and an in-place twin must agree exactly.",
    technique="runtime monitoring: closed-form kernel-sum reference model + in-place/out-of-place twin comparison on the real synapse classes",
)

_add(
    "C03",
    has_suite=True,
    rule="trajectories of 40-200 steps for each of the 8 neuron classes with hyper-parameters drawn inside the documented "
         "domains (refractory period 0, dt/4, 0.4dt, 0.75dt, dt, 1.5dt, 2dt, 2.5dt, 3dt, 0.3 at dt 0.1; dt in {1,0.5,0.1,1.3}), float32 and float64, "
         "batch 1-4, shapes up to 3-D, per-step drive in {random, zero, +-1e6, negative, strong, near-threshold solved "
         "from the oracle to land at theta*(1+-1e-4)}, refrac_lock on/off, adapt True/False/None x train/eval; plus "
         "exactly representable ties v == theta (and one ulp either side) for the quadratic neurons. One evaluation = "
         "one neuron step judged by the model-free invariants I1-I6 and (float64) by the one-step model from the "
         "observed pre-state (spike set, voltage, refractory time, and the batch-averaged adaptation that sets the next step's threshold / current). distinct = (class, dtype, dt, refractory ratio, drive, lock, adapt, spiking/quiet, batch).",
    required=["steps_checked", "spikes_seen", "reset_checks", "silence_window_steps", "adaptation_freeze_checks", "adaptation_law_checks",
              "model_steps_checked", "exact_ties_checked", "mid_trajectory_clears", "adaptation_function_checks", "exact_ties_checked.linear_models", "trajectories_of_retimed_neurons"],
    floor={"quick": 400, "thorough": 1500},
    text="Held on every trajectory explored (apart from the listed finding): every forward of the real neuron classes "
         "is checked for non-negative refractory time, spike attribute == returned spikes, no spike while refractory, "
         "same-step reset, the silence window max(1, ceil(refrac/dt)) with bit-identical locked voltage and frozen "
         "adaptation, and - in float64 - against an independent transcription of the documented update equations "
         "applied to the observed pre-step state, with a guard band around the threshold decision.",
    technique="runtime monitoring: per-step invariants + float64 one-step reference model on the real neuron forward() over generated drives",
)

_add(
    "C05",
    rule="dense / direct / lateral connections with random multi-dimensional in/out shapes, batch 1-4, bias on/off and "
         "random real currents injected through a delta-plus synapse (zero spikes), 1-3 steps each; conv2d geometries "
         "(H,W 3-9, C,F 1-3, rectangular kernels 1-3, stride 1-3 incl. rectangular, padding 0-2, dilation 1-2, non-empty "
         "output): quick samples ~440, thorough additionally enumerates the whole square-input grid; every forward is "
         "compared with F.linear / element-wise / masked matmul / F.conv2d, the advertised output shape with the "
         "reference operator's, like_input(like_synaptic(x)) with x on the positions read, and the receptive views "
         "contracted with the weight with the forward output; lateral diagonal invariant after each of 4-14 random "
         "mutating operations (weight/delay assignment, updater application, clamp / normalise hooks, forward). "
         "distinct = geometry / shape-class abstractions.",
    required=["linear_forwards_at_a_reassigned_batch_size", "forward_checks", "conv_geometries", "helper_checks", "lateral_diagonal_checks", "delayed_linear_cases", "initialiser_built_connections", "delayed_conv_cases", "bias_layout_checks", "conv_weights_assigned_in_other_memory_layouts", "linear_weights_assigned_in_other_memory_layouts", "initialiser_built_conv_connections", "lateral_same_object_assignments", "conv_built_with_zero_delay"],
    floor={"quick": 150, "thorough": 3000},
    exhaustive={"thorough": ["conv2d: all square inputs 3..9, C,F in 1..3, kernels 1..3 x 1..3, stride 1..3, padding 0..2, dilation 1..2 with non-empty output"]},
    text="Held on every input and geometry explored: the real connections (float64) are driven with arbitrary real "
         "synaptic currents and their outputs compared with PyTorch's reference operators; reshaping helpers are tied to "
         "the map by contraction with the weight; the lateral mask is asserted after every mutating operation.",
    technique="runtime monitoring: reference-operator oracle (F.linear / F.conv2d) + diagonal invariant on the real connection classes",
)

_add(
    "C06",
    rule="4 connection types x 4 synapse types x dt {1,0.5,1.3} x maximum delay {1,3,5} steps x tolerance {0,1e-3} x "
         "interpolation {previous, nearest} x batch 1-3 x float64/float32, delay tensors {all zero, homogeneous, "
         "heterogeneous on-grid (k*dt), mixed on/off grid}, histories of 3K+10 events with random spikes (and injected "
         "currents for delta-plus), delays re-assigned mid-run and clear() mid-run; after every step the delayed "
         "output, syncurrent and synspike are compared with the undelayed twin's logged state shifted per synapse. "
         "One evaluation = one step; distinct = (connection, synapse, dt, K, tolerance, delay mode, interpolation, "
         "dtype, batch, bias, start-up/steady) abstractions.",
    required=["steps_of_connections_built_with_zero_maximum_delay", "delayed_steps_checked", "zero_delay_steps", "delay_reassignments", "clears", "retimed_connections", "redelayed_connections", "delayed_conv_with_stride_padding_or_dilation"],
    floor={"quick": 150, "thorough": 600},
    text="Held on every history explored: a real delayed connection and an undelayed twin with identical parameters are "
         "stepped on the same inputs; the delayed output and the delay-offset views must equal the connection's map of "
         "the twin's logged per-synapse state taken d/dt steps earlier (zero before the start or the last clear).",
    technique="runtime monitoring: relational (2-safety) monitor, delayed connection vs. shifted log of an undelayed twin",
)

_add(
    "C17",
    rule="Serial (4 connection types, transform none / fixed / keyword-driven), Biclique (1-3 connections, 1-2 neuron "
         "groups, per-connection and per-group transforms, combine sum/mean/prod/min/max/custom) and RecurrentSerial "
         "(with/without trainable feedback and transforms) layers over the 8 neuron classes x 4 synapse types, with and "
         "without connection delays, bias, batch 1-3, 6-10 step input sequences, capture_intermediate on/off; (a) every "
         "step is compared with hand-stepped twins built from the same descriptor; (b) for EVERY position k of the run a "
         "new layer is run k steps, cleared, compared state-by-state with a freshly built copy carrying its parameters and "
         "adaptations, and both replay 5 steps. One evaluation = one compared step or one clear position; distinct = "
         "(layer kind / combine, neuron, synapse, delay, capture, batch, clear position class) abstractions.",
    required=["layer_updates_between_steps", "clears_dropping_learned_adaptations", "wiring_steps_checked", "component_states_compared", "clear_positions_checked", "replays_checked", "recurrent_layers_with_one_sided_output_transforms", "connection_kwargs_routing_checks", "clears_with_pending_updates_checked", "bicliques_with_inplace_transform_before_another_group", "recurrent_steps_with_additional_connection_inputs", "steps_at_a_new_batch_size_after_clear"],
    floor={"quick": 150, "thorough": 500},
    exhaustive={"quick": ["clear() at every position 0..T of each generated run"], "thorough": ["clear() at every position 0..T of each generated run"]},
    text="Held on every topology and run explored: layer outputs (and captured intermediates) equal the documented "
         "composition computed on independently constructed twins; clear() succeeds at every position of every run, "
         "leaves parameters and adaptations untouched, and the cleared layer is state-identical to - and replays "
         "identically to - a freshly built copy.",
    technique="runtime monitoring: relational monitor, layer vs hand-composed twins and cleared layer vs fresh copy at every clear position",
)

_add(
    "C08",
    rule="(a) exhaustive: all 4^T joint pre/post spike histories of a single synapse (T=4 quick, T=5 thorough; every "
         "synapse of a 3->2 dense cell shares the history) x 4 sign modes x {cumulative, nearest}, STDP and triplet STDP; "
         "(b) random populations for dense / direct / lateral / conv cells, dt {1,0.5}, batch 1-3, 6-12 steps, with and "
         "without connection delays in both the 'delayed' and delay-frozen trainer modes (delays re-assigned mid-run), "
         "reductions {sum, mean, amax}, scalar rewards of both signs and per-sample reward tensors, for STDP, triplet "
         "STDP, MSTDP and MSTDPET; (c) two cells in ONE trainer with per-cell hyper-parameter overrides that differ in one "
         "or two places, sharing either the postsynaptic group (c0, c1 -> n0) or the connection (c0 -> n0, n1: the shared "
         "accumulator must receive the sum of the two cells' rules), all seven STDP-family trainers. One evaluation = one layer step + trainer call + update judged (parts, net change, "
         "applied change) against sums over recorded spike times; non-trivial when at least one spike pair contributes; "
         "distinct = (trainer, cell type, delay mode, sign mode, trace mode, reduction, batch, reward kind, pairs/no pairs).",
    required=["cells_registered_with_batch_reduction_none", "cases_with_the_trainer_stepped_from_a_layer_forward_hook", "trainer_steps_checked", "steps_with_pairs", "exhaustive_histories", "per_cell_override_cases", "multicell_steps_checked", "multicell_shared_connection_steps", "fractional_delay_steps_checked", "multicell_frozen_layer_cases", "episode_clears", "multicell_calls_limited_to_named_cells", "multicell_cases_applied_through_trainer_update", "steps_with_accumulated_pending_updates"],
    floor={"quick": 60, "thorough": 150},
    exhaustive={"quick": ["all 4^4 joint pre/post histories of one synapse x 4 sign modes x 2 trace modes"],
                "thorough": ["all 4^5 joint pre/post histories of one synapse x 4 sign modes x 2 trace modes"]},
    text="Held on every spike history explored: real trainers registered on a real Serial layer (float64) are driven with "
         "imposed pre and post spikes; after every step the accumulated potentiating / depressing parts and the applied "
         "weight change are compared with an oracle that only knows the spike times (explicit pair / triplet sums, "
         "eligibility filter, reward scaling, batch reduction, F.unfold geometry for conv).",
    technique="runtime monitoring: spike-time reference model (pair/triplet sums) against real trainers on real layers; exhaustive short histories + random populations",
    assumptions=["pre spikes are the layer input and post spikes are imposed through inferno.extra.ExactNeuron(override=...)"],
)

_add(
    "C18",
    rule="(a) formula: KernelSTDP (exponential kernels, with/without delays in both trainer modes) and the six "
         "delay-adjusted trainers on dense / direct / lateral / conv cells, dt {1,0.5}, batch 1-3, 6-14 steps of random "
         "pre / imposed post spikes, per-synapse delays {all zero, on-grid, off-grid real values} re-assigned mid-run "
         "(weight variants) or changed by learning every step (delay variants; the oracle re-reads d each step), 4 sign "
         "combinations, reductions, scalar and per-sample rewards; (b) cross: kernel rule with the shipped exponential "
         "kernels vs the dedicated delay-adjusted rule on identical inputs; (c) all-zero delays vs the undelayed kernel "
         "rule; (d) exactly constructed t_delta == 0 ties. One evaluation = one step judged; distinct = (part, trainer, "
         "cell type, delay values, sign mode, reduction, batch, reward kind, active/silent).",
    required=["cases_with_a_positive_interpolation_tolerance", "cells_registered_with_batch_reduction_none", "cases_with_the_trainer_stepped_from_a_layer_forward_hook", "formula_steps_checked", "steps_with_change", "steps_before_both_sides_spiked", "trainer_clears", "cross_steps_checked",
              "zero_delay_steps_checked", "ties_checked", "tensor_valued_kernel_kwargs_cases", "multicell_steps_checked", "kernel_delayed_substep_delay_steps", "multicell_calls_limited_to_named_cells", "user_kernel_cases", "steps_with_accumulated_pending_updates"],
    floor={"quick": 60, "thorough": 150},
    text="Held on every history explored: the change applied by each real delay-adjusted / kernel trainer after every "
         "step equals the documented function of t_delta built from the true most-recent spike times and the delay read "
         "that step (nothing before both sides have spiked, causal branch at t_delta == 0), and the kernel and dedicated "
         "implementations agree step by step.",
    technique="runtime monitoring: last-spike-time reference model + cross-implementation relational monitor on real trainers",
)

_add(
    "C09",
    has_suite=True,
    rule="every shipped trainer (STDP, triplet, MSTDP, MSTDPET, kernel, the six delay-adjusted weight / delay variants) x "
         "all four sign combinations of its learning rates on dense / direct / lateral / conv cells with random spike "
         "histories, reward signs (scalar and per-sample), reductions {sum, mean, amax}, with and without delays; a "
         "class-level wrapper on the Accumulator setters checks every part handed over for element-wise non-negativity; "
         "the applied change is compared with the signed C08 / C18 oracle; in half of the cases spy upper / lower "
         "bounding functions check the routing; plus linear homeostasis on weight / bias / delay with plasticity of both "
         "signs and observed rates above and below target (direction of the applied change). One evaluation = one "
         "trainer step judged; distinct = (trainer, cell type, sign mode, reduction, reward kind, delay mode, ...).",
    required=["routing_cases_with_another_accumulator_half_bound_afterwards", "parts_checked", "trainer_steps_checked", "routing_steps_checked", "homeostasis_steps_checked", "three_factor_steps_with_negative_scale.tensor_signal", "three_factor_steps_with_negative_scale.scalar_signal", "routing_cases_with_a_half_bound_removed"],
    floor={"quick": 60, "thorough": 200},
    text="Held on every history explored (apart from the listed findings): every tensor a real trainer assigns to an "
         "Accumulator is checked to be element-wise non-negative at the moment of assignment, potentiation minus "
         "depression equals the rule's signed update from the spike-time oracle, spy bounding functions receive exactly "
         "the reduced potentiating / depressing parts, and homeostatic updates are checked for direction.",
    technique="runtime monitoring: invariant hooked at the Accumulator setters + signed-rule reference model + spy bounding functions on real trainers",
)

_add(
    "C11",
    rule="components built with batch size B in 2..5 (or built at another size, optionally used, and brought to B through the "
         "batchsz setter) next to B twins of batch size 1 with identical parameters: the 8 "
         "neuron classes (adaptation frozen, refrac_lock on/off), 4 synapses (delays 0/2/3 steps, in-place or not, incl. "
         "full history tensors and delayed reads), 4 connections x 4 synapses with and without delays, Serial / Biclique / "
         "RecurrentSerial layers, and the 11 trainers with batch_reduction=sum; per-sample inputs are deliberately very "
         "different (sample 0 silent, sample 1 saturated, the rest random); 5-25 steps each. One evaluation = one step in "
         "which every sample of every observable is compared with its single-sample twin (or the sum of per-sample "
         "trainer steps); distinct = (component kind, class, batch size, delay, ...).",
    required=["homeostasis_batched_steps_checked", "adapting_steps_checked", "adapting_steps_with_batch_size_equal_to_first_neuron_dimension", "steps_checked", "sample_comparisons", "trainer_steps_checked", "resized_components", "mid_run_clears", "single_connection_biclique_steps", "trainer_cases_with_cell_level_reduction", "trainer_cases_with_sign_changing_user_kernel", "trainer_cases_with_library_sum_reducers"],
    floor={"quick": 60, "thorough": 200},
    text="Held on every run explored: sample b of every output, state tensor and history tensor of a batched real "
         "component equals what an identically parameterised batch-size-1 twin produces for that sample alone, at every "
         "step; with a sum reduction the batched trainer step equals the sum of the per-sample steps.",
    technique="runtime monitoring: relational (2-safety) monitor, batched run vs independent single-sample twins",
)

_add(
    "C12",
    rule="systems = Serial / Biclique / RecurrentSerial layer (8 neuron classes x 4 synapses x 4 connections, with and "
         "without delays, in-place or not) + optional trainer (STDP, triplet, MSTDP, MSTDPET, kernel, delay-adjusted "
         "weight and delay variants; real weight/delay updates every step) + optional stand-alone reducer (trace, event, "
         "EMA, cumulative average, pass-through; duration 0 or 3 steps) + optional MaxRateClassifier, batch 1-2, run "
         "length T in 8..14; for EVERY k in 0..T: run k steps, torch.save/torch.load the state dicts, load strictly into "
         "a third instance that was warmed by one step (fresh) or three steps on unrelated data (prerun; or clone: its used "
         "classifier replaced by a copy.deepcopy of itself), continue to T "
         "and compare every output and the complete final state (all state-dict entries incl. extras and non-persistent "
         "buffers) exactly. One evaluation = one checkpoint position; distinct = (layer, trainer, reducer, classifier, "
         "target kind, position class, delay, in-place).",
    required=["checkpoints_loaded_into_a_cleared_target.double_precision", "checkpoints_with_pending_updates_into_a_target_whose_pending_parts_were_read", "checkpoints_loaded_a_second_time_after_the_first_replica_ran", "cloned_targets", "checkpoint_positions_checked", "restored_steps_compared", "final_states_compared", "phase_mismatch_probes", "checkpoints_with_pending_updates", "checkpoints_of_histories_grown_by_setters", "checkpoints_after_in_place_changes_of_trainer_buffers", "checkpoints_with_a_monitor_reading_state_before_the_step", "checkpoints_with_a_difference_monitor"],
    floor={"quick": 20, "thorough": 120},
    shards={"quick": 8, "thorough": 32},
    exhaustive={"quick": ["every checkpoint position k in 0..T of each generated run"], "thorough": ["every checkpoint position k in 0..T of each generated run"]},
    text="Held on every configuration and checkpoint position explored: state dictionaries really serialised with "
         "torch.save/torch.load and loaded strictly into another instance (fresh or previously run) reproduce every later "
         "output and the complete final state of the uninterrupted run bit-for-bit.",
    technique="runtime monitoring: relational monitor, interrupted-and-restored run vs uninterrupted run at every checkpoint position",
)

_add(
    "C14",
    rule="neurons (8 classes), synapses (4), connections (4 types x 4 synapses, with/without learned delays), reducers (6) "
         "and a Serial layer: constructed with a random configuration c0, then 1-6 random assignments of dt / maximum "
         "delay / batch size / duration / inplace / replacement synapse / .to(float64); after every assignment all "
         "configuration getters are compared with a before-snapshot; at the end a constructor-built twin with the final "
         "configuration is compared (reported configuration, recordsz/dt/duration/inclusive of every internal "
         "RecordTensor, outputs from a cleared state on the same inputs). One evaluation = one assignment judged; "
         "distinct = (component kind, class, assigned attribute).",
    required=["cases_with_an_assignment_a_hair_away_from_the_current_value", "refused_assignments_checked", "connection_maximum_delay_assignments", "assignments_checked", "twin_comparisons", "output_comparisons", "assignments_after_use", "configured_dtype_checks", "resting_state_comparisons", "recurrent_layer_cases"],
    floor={"quick": 40, "thorough": 80},
    text="Held on every assignment sequence explored: each real property setter reports the assigned value back, leaves "
         "every other reported attribute unchanged, and the setter-built object is indistinguishable - configuration, "
         "internal history sizes, outputs from a cleared state - from one constructed directly with that configuration.",
    technique="runtime monitoring: relational monitor, setter-built object vs constructor-built twin with per-assignment getter snapshots",
)

_add(
    "C15",
    rule="random sequences of 20-80 operations over {register_cell, del_cell, add_monitor (pass-through probes on "
         "neuron.spike / connection.synspike / neuron.voltage, unique or pooled), del_monitor, trainer.train/eval, "
         "layer.train/eval, layer step, trainer step, trainer.update, clear, drop-last-reference + gc.collect, listing "
         "check} on one or two trainers of any shipped kind (STDP, triplet, MSTDP, MSTDPET, kernel, delay-adjusted, linear "
         "homeostasis) over a Biclique layer whose four cells share connections and neurons and two Serial layers with "
         "identical component names; after every layer step every registered slot's monitor is checked for exactly the "
         "expected number of folds (1 iff trainer and that cell's layer are training, else 0) and probe monitors for "
         "holding the current attribute of their own layer. One evaluation = one operation; non-trivial = everything but "
         "bare mode switches; distinct = (operation, trainer kind, layer, registration counts, sharing, modes).",
    required=["cells_stripped_of_monitors_then_reregistered", "layer_steps", "slot_observations_checked", "probe_values_checked", "trainer_steps", "listing_checks", "rejected_duplicate_registrations", "cells_died_without_removal", "unit_listing_checks", "repeated_add_monitor_calls", "probes_of_other_monitor_kinds", "probes_on_cell_alias_attributes", "trainer_clears_with_keepshape"],
    floor={"quick": 100, "thorough": 300},
    text="Held on every operation sequence explored (apart from listed findings): fold counts per registered monitor "
         "slot follow an explicit registration / mode state machine after every layer step, probe monitors hold the "
         "current value of their own cell's attribute, operations on one cell or trainer never change what another "
         "records, trainer calls on registered, observed cells do not raise, and the listings equal the registered set.",
    technique="runtime monitoring: registration/mode state-machine monitor with per-reducer fold counters over random lifecycle sequences on real trainers and layers",
)
