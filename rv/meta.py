"""Static per-property metadata read by the runner (no torch import needed)."""

META = {
    "C01": {
        "RULE": "inductive sweep: every single public operation (offsets 0..2N, lengths 1..N, fwd/bwd, "
                "int / uniform-tensor / per-element-distinct-tensor offset, inplace/not, same/foreign obs dtype) "
                "applied to a freshly id-filled ring for N in 1..4 x every pointer x {buffer, Parameter, None} "
                "storage, plus sampled 2-3 op compositions and random 50-300 op histories (N<=30, shapes up to "
                "3-D, float32/float64/int64/bool); one evaluation = one operation applied and judged "
                "(return value + full state read back through read(k) and through storage). A case is "
                "non-trivial unless it is incr/decr by 0; distinct = distinct (op, N, pointer, storage, dtype, "
                "offset class, length class, direction, offset kind, inplace, foreign dtype) abstractions.",
        "REQUIRED": ["state_readbacks", "invariant_evaluations", "ops.readrange", "ops.writerange", "ops.push",
                     "autocreate_checked"],
        "FLOOR": {"quick": 500, "thorough": 1500},
        "EXHAUSTIVE": {"quick": ["all single operations x pointer positions x storage kinds, N in {1,2,3,4}, shapes () and (2,)"],
                       "thorough": ["all single operations x pointer positions x storage kinds, N in {1,2,3,4}, shapes () and (2,)"]},
        "ASSUMPTIONS": ["reference model rv/models/ring.py (list of observations, rotation for pointer moves)"],
    },
    "C02": {
        "RULE": "records N in {1,2,3,4,5,8} x dt in {1,0.5,0.1,1.3} x every pointer; select/insert calls with times "
                "constructed as k*dt+delta (delta in {0, +-tol/2, +-2tol (1e-9 when tol=0), dt/4, dt/2, 3dt/4, dt-2tol}), "
                "scalar / tensor / tensor-with-extra-dim times, per-element mixed on/off-grid, offsets 0..N, tol in "
                "{0,1e-6,1e-3}, spy and every shipped interpolation/extrapolation, in-place or not, plus out-of-range "
                "calls; one evaluation = one select/insert call judged (spy arguments, value, all slots). distinct = "
                "(op, mode, N, dt, tol, grid class, range edge, offset class, function, dtype, inplace) abstractions.",
        "REQUIRED": ["select_calls", "insert_calls", "oor_calls", "spy_interp_args_checked", "spy_extrap_args_checked",
                     "roundtrips", "scalar_tensor_agreements", "expected_errors_seen"],
        "FLOOR": {"quick": 300, "thorough": 1500},
        "ASSUMPTIONS": ["what is stored is read through RecordTensor.read / the ring model validated by C01"],
    },
    "C13": {
        "RULE": "(a) RecordTensor built with (dt, duration, inclusive) incl. non-representable ratios over 7 storage "
                "kinds, id-filled to several fill levels and pointer positions, then 1-4 assignments of dt / duration / "
                "inclusive judged by the literal size formula and read(k) before/after; (b) add/edit/remove of shape "
                "constraints on an initialised record; (c) random reconstrain add/edit/remove + value assignment "
                "sequences on ShapedTensor (strict and non-strict, positive and negative dims, buffer/Parameter/None/"
                "empty) against a dict model. One evaluation = one assignment / reconstrain judged. distinct = "
                "(part, operation, grow/shrink/no-op, storage state and kind, size classes, strictness, dim sign) abstractions.",
        "REQUIRED": ["resize_readbacks", "temporal.grow.initialised", "temporal.shrink.initialised",
                     "temporal.grow.uninitialised", "temporal.shrink.uninitialised", "recshape_ops",
                     "shaped_reconstrain_ops", "shaped_refusals", "valid_flag_checks"],
        "FLOOR": {"quick": 150, "thorough": 250},
        "ASSUMPTIONS": ["read(k) (validated by C01) is the observation k steps before present"],
    },
}

NOT_APPLICABLE = {}

_NOTE = ("Trusted: CPython 3.12, PyTorch CPU kernels, the small reference models under rv/models. Decides only the "
         "executions the generators produce (counts in the evidence file); CPU, no autograd.")

MANIFEST_TEXT = {
    "C01": {
        "text": "Held on every execution explored: each public RecordTensor operation is applied to the real class and "
                "judged, with a full state read-back, against an independent list-of-observations model using unique-id "
                "values; the single-operation x pointer x storage-kind space is enumerated completely for N<=4, longer "
                "histories are sampled. Exploration is the right level: the property is over all histories and a monitor "
                "decides only those produced.",
        "note": _NOTE,
        "technique": "runtime monitoring: reference-model (list ring) monitor + icontract class invariant on the real RecordTensor, exhaustive single-op sweep N<=4 plus random histories",
    },
    "C02": {
        "text": "Held on every select/insert call explored: times are constructed from an integer step and a symbolic "
                "offset so the oracle knows the slot, grid membership, bracketing samples and elapsed time; a spy "
                "interpolation/extrapolation records the arguments the real code passes, every slot of storage is compared "
                "after each insert, scalar and tensor forms are cross-checked and range errors are demanded.",
        "note": _NOTE,
        "technique": "runtime monitoring: argument-spy oracle + list-model comparison on the real RecordTensor.select/insert over generated on/off-grid times",
    },
    "C13": {
        "text": "Held on every resize / reconstrain explored: each assignment of dt, duration, inclusive or a shape "
                "constraint on the real RecordTensor / ShapedTensor is followed by a comparison of the record size with the "
                "literal formula, of read(k) with the values read before (unique ids; zeros in new slots) and of the "
                "constraint bookkeeping with a dictionary model, including refusals that must have no side effects.",
        "note": _NOTE,
        "technique": "runtime monitoring: before/after observation monitor + dict reference model on the real temporal setters and reconstrain over generated configurations",
    },
}
