"""Static per-property metadata read by the runner (no torch import needed)."""

META = {
    "C01": {
        "RULE": "inductive sweep: every single public operation (offsets 0..2N, lengths 1..N, fwd/bwd, "
                "int / uniform-tensor / per-element-distinct-tensor offset, inplace/not, same/foreign obs dtype) "
                "applied to a freshly id-filled ring for N in 1..4 x every pointer x {buffer, Parameter, None} "
                "storage, plus sampled 2-3 op compositions and random 50-300 op histories (N<=30, shapes up to "
                "3-D, float32/float64/int64/bool); one evaluation = one operation applied and judged "
                "(return value + full state read back through read(k) and through storage). A case is "
                "non-trivial unless it is incr/decr by 0; distinct = distinct (op, N, pointer, storage, dtype, "
                "offset class, length class, direction, offset kind, inplace, foreign dtype) abstractions.",
        "REQUIRED": ["state_readbacks", "invariant_evaluations", "ops.readrange", "ops.writerange", "ops.push",
                     "autocreate_checked"],
        "FLOOR": {"quick": 500, "thorough": 1500},
        "EXHAUSTIVE": {"quick": ["all single operations x pointer positions x storage kinds, N in {1,2,3,4}, shapes () and (2,)"],
                       "thorough": ["all single operations x pointer positions x storage kinds, N in {1,2,3,4}, shapes () and (2,)"]},
        "ASSUMPTIONS": ["reference model rv/models/ring.py (list of observations, rotation for pointer moves)"],
    },
}

NOT_APPLICABLE = {}

_NOTE = ("Trusted: CPython 3.12, PyTorch CPU kernels, the small reference models under rv/models. Decides only the "
         "executions the generators produce (counts in the evidence file); CPU, no autograd.")

MANIFEST_TEXT = {
    "C01": {
        "text": "Held on every execution explored: each public RecordTensor operation is applied to the real class and "
                "judged, with a full state read-back, against an independent list-of-observations model using unique-id "
                "values; the single-operation x pointer x storage-kind space is enumerated completely for N<=4, longer "
                "histories are sampled. Exploration is the right level: the property is over all histories and a monitor "
                "decides only those produced.",
        "note": _NOTE,
        "technique": "runtime monitoring: reference-model (list ring) monitor + icontract class invariant on the real RecordTensor, exhaustive single-op sweep N<=4 plus random histories",
    },
}
