"""Anchor-line coverage: a sys.monitoring LINE listener restricted to the property's anchor
files; returns DISABLE after the first hit of each line, so steady-state cost is ~0."""

from __future__ import annotations

import json
import os
import re
import sys

_TOOL = 3  # sys.monitoring tool id (free slot)


def parse_anchors(prop_id, verif_root):
    """-> {relative file (under inferno/): [(lo, hi, mechanism name), ...]} from properties.jsonl"""
    out = {}
    with open(os.path.join(verif_root, "properties.jsonl")) as f:
        for line in f:
            d = json.loads(line)
            if d["id"] != prop_id:
                continue
            files = [p for p in d["anchors"]["files"] if p.endswith(".py")]
            for p in files:
                out.setdefault(p, [])
            for m in d["anchors"]["mechanism"]:
                where = m.get("where", "")
                # split at each "<path>.py" occurrence
                parts = re.split(r"((?:[\w/]+/)?\w+\.py)", where)
                cur = None
                for tok in parts:
                    if tok.endswith(".py"):
                        cur = tok
                        continue
                    if cur is None:
                        continue
                    full = next((p for p in files if p.endswith(cur)), None)
                    if full is None:
                        full = "inferno/" + cur if not cur.startswith("inferno/") else cur
                        out.setdefault(full, [])
                    for lo, hi in re.findall(r"(\d+)\s*-\s*(\d+)", tok):
                        out[full].append((int(lo), int(hi), m["name"]))
    return out


def _exec_lines(path):
    try:
        src = open(path).read()
        code = compile(src, path, "exec")
    except Exception:  # noqa: BLE001
        return set()
    lines = set()
    stack = [code]
    while stack:
        c = stack.pop()
        # function bodies only: module and class bodies run at import, before the listener starts, and the
        # RESUME line of a function (its def / decorator line) raises no LINE event
        if c.co_flags & 0x1:
            for _, _, ln in c.co_lines():
                if ln and ln != c.co_firstlineno:
                    lines.add(ln)
        for k in c.co_consts:
            if hasattr(k, "co_lines"):
                stack.append(k)
    return lines


class LineCov:
    def __init__(self, repo_root, anchors):
        self.repo_root = os.path.realpath(repo_root)
        self.anchors = anchors
        self.files = {os.path.join(self.repo_root, rel): rel for rel in anchors}
        self.hit = {rel: set() for rel in anchors}
        self.on = False

    def start(self):
        mon = getattr(sys, "monitoring", None)
        if mon is None:
            return
        try:
            mon.use_tool_id(_TOOL, "rv-linecov")
        except ValueError:
            return
        files = self.files
        hit = self.hit
        DISABLE = mon.DISABLE

        def on_line(code, lineno):
            rel = files.get(code.co_filename)
            if rel is not None:
                hit[rel].add(lineno)
            return DISABLE

        mon.register_callback(_TOOL, mon.events.LINE, on_line)
        mon.set_events(_TOOL, mon.events.LINE)
        self.on = True

    def stop(self):
        if self.on:
            mon = sys.monitoring
            mon.set_events(_TOOL, 0)
            mon.register_callback(_TOOL, mon.events.LINE, None)
            mon.free_tool_id(_TOOL)
            self.on = False

    def result(self):
        return {rel: sorted(s) for rel, s in self.hit.items()}


def _ranges(lines):
    out, i = [], 0
    while i < len(lines):
        j = i
        while j + 1 < len(lines) and lines[j + 1] == lines[j] + 1:
            j += 1
        out.append(str(lines[i]) if i == j else f"{lines[i]}-{lines[j]}")
        i = j + 1
    return ",".join(out)


def summarize(repo_root, anchors, hits):
    """hits: {rel: set(lines)} -> per mechanism executed/executable line counts."""
    per_mech = {}
    per_file = {}
    for rel, ranges in anchors.items():
        ex = _exec_lines(os.path.join(repo_root, rel))
        h = set(hits.get(rel, ()))
        per_file[rel] = {"executable": len(ex), "executed": len(ex & h)}
        for lo, hi, name in ranges:
            rng = {l for l in ex if lo <= l <= hi}
            d = per_mech.setdefault(name, {"executable": 0, "executed": 0, "where": [], "unexecuted": []})
            d["executable"] += len(rng)
            d["executed"] += len(rng & h)
            d["where"].append(f"{rel}:{lo}-{hi}")
            miss = _ranges(sorted(rng - h))
            if miss:
                d["unexecuted"].append(f"{rel}:{miss}")
    return {"files": per_file, "mechanisms": per_mech}
