"""Per-shard monitoring context: counters, abstractions, violations, samples, exception events."""

from __future__ import annotations

import contextlib
import json
import os
import random
import time
import traceback


class Skip(Exception):
    """Raised by a monitor to abandon the current case (not a violation)."""


class HarnessError(Exception):
    """An exception whose stack never entered the repository: a bug in the monitor, never a verdict."""


def _jsonable(x, depth=0):
    import torch

    if depth > 6:
        return repr(x)[:200]
    if isinstance(x, (str, int, bool)) or x is None:
        return x
    if isinstance(x, float):
        if x != x or x in (float("inf"), float("-inf")):
            return repr(x)
        return x
    if isinstance(x, torch.Tensor):
        if x.numel() <= 64:
            return {"tensor": _jsonable(x.detach().cpu().tolist(), depth + 1), "dtype": str(x.dtype)}
        return {"tensor_shape": list(x.shape), "dtype": str(x.dtype)}
    if isinstance(x, dict):
        return {str(k): _jsonable(v, depth + 1) for k, v in x.items()}
    if isinstance(x, (list, tuple, set, frozenset)):
        return [_jsonable(v, depth + 1) for v in x]
    return repr(x)[:300]


class Ctx:
    MAX_VIOL_PER_MECH = 3
    MAX_SAMPLES = 4

    def __init__(self, prop, tier, seed, shard, nshards, repo_root, soft_deadline_s):
        self.prop = prop
        self.tier = tier
        self.seed = seed
        self.shard = shard
        self.nshards = nshards
        self.repo_root = os.path.realpath(repo_root)
        self.rng = random.Random(f"{seed}/{prop}/{shard}")
        self.t0 = time.monotonic()
        self.soft_deadline = self.t0 + soft_deadline_s
        self.evaluations = 0
        self.abstractions = {}
        self.trivial = 0
        self.counters = {}
        self.violations = []
        self.violation_counts = {}
        self.samples = []
        self.capped = False
        self.guard_skips = 0
        self.guard_compared = 0
        self.replaying = False

    # ---- bookkeeping -------------------------------------------------------------
    def out_of_time(self):
        if time.monotonic() > self.soft_deadline:
            self.capped = True
            return True
        return False

    def case(self, abstraction, nontrivial=True):
        """Record one executed case. abstraction: hashable/str describing the case class."""
        self.evaluations += 1
        if nontrivial:
            key = abstraction if isinstance(abstraction, str) else json.dumps(_jsonable(abstraction))
            self.abstractions[key] = self.abstractions.get(key, 0) + 1
        else:
            self.trivial += 1

    def count(self, name, n=1):
        self.counters[name] = self.counters.get(name, 0) + n

    def sample(self, obj):
        if len(self.samples) < self.MAX_SAMPLES:
            self.samples.append(_jsonable(obj))

    def violation(self, mechanism, what, descriptor=None, detail=None):
        if mechanism.startswith("exception.") and "@outside-inferno" in mechanism:
            raise HarnessError(f"{mechanism}: {what} :: {json.dumps(_jsonable(detail))[:1500]}")
        self.violation_counts[mechanism] = self.violation_counts.get(mechanism, 0) + 1
        if self.violation_counts[mechanism] <= self.MAX_VIOL_PER_MECH:
            self.violations.append(
                {
                    "mechanism": mechanism,
                    "what": what,
                    "descriptor": _jsonable(descriptor),
                    "detail": _jsonable(detail),
                }
            )
        if self.replaying:
            print(f"  violation mechanism={mechanism}: {what}")
            if detail is not None:
                print("   detail:", json.dumps(_jsonable(detail))[:2000])

    # ---- exceptions are events -----------------------------------------------------
    def exc_signature(self, exc, opkind):
        """exception.<Type>@<innermost frame under <repo>/inferno>:<qualname>:<opkind>"""
        where = "outside-inferno"
        tb = exc.__traceback__
        inf_root = os.path.join(self.repo_root, "inferno") + os.sep
        for fs, _ in traceback.walk_tb(tb):
            fn = os.path.realpath(fs.f_code.co_filename)
            if fn.startswith(inf_root):
                qual = getattr(fs.f_code, "co_qualname", fs.f_code.co_name)
                if qual == "Module.__getattr__" and where != "outside-inferno":
                    continue  # attribute-lookup plumbing: keep the caller as the site
                where = f"{fn[len(inf_root):]}:{qual}"
        return f"exception.{type(exc).__name__}@{where}:{opkind}"

    @contextlib.contextmanager
    def indomain(self, opkind, descriptor=None, reraise=False):
        """An in-domain call: any exception is a violation event."""
        try:
            yield
        except Skip:
            raise
        except Exception as e:  # noqa: BLE001
            sig = self.exc_signature(e, opkind)
            tbs = traceback.format_exception(type(e), e, e.__traceback__)
            self.violation(
                sig,
                f"in-domain {opkind} raised {type(e).__name__}: {str(e)[:200]}",
                descriptor,
                {"traceback_tail": "".join(tbs)[-1500:]},
            )
            self.count("indomain_exceptions")
            if reraise:
                raise Skip() from e

    def expect_raises(self, exc_types, opkind, fn, descriptor=None, mechanism=None):
        """An out-of-domain call: must raise one of exc_types."""
        try:
            fn()
        except exc_types:
            self.count("expected_errors_seen")
            return True
        except Exception as e:  # noqa: BLE001
            self.violation(
                mechanism or f"wrong_error.{type(e).__name__}:{opkind}",
                f"out-of-domain {opkind} raised {type(e).__name__} instead of {exc_types}",
                descriptor,
                {"message": str(e)[:300]},
            )
            return False
        self.violation(
            mechanism or f"missing_error:{opkind}",
            f"out-of-domain {opkind} did not raise",
            descriptor,
        )
        return False

    # ---- result ------------------------------------------------------------------------
    def result(self):
        return {
            "evaluations": self.evaluations,
            "abstractions": self.abstractions,
            "trivial": self.trivial,
            "counters": self.counters,
            "violations": self.violations,
            "violation_counts": self.violation_counts,
            "samples": self.samples,
            "capped": self.capped,
            "guard_skips": self.guard_skips,
            "guard_compared": self.guard_compared,
            "wall_s": time.monotonic() - self.t0,
        }
