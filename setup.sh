#!/bin/sh
# MANIFEST.setup_cmd: offline install of the contract / schema libraries the monitors use
# into the git-ignored /verif/.deps (appended AFTER /venv's site-packages on sys.path).
set -e
here="$(cd "$(dirname "$0")" && pwd)"
if [ ! -d "$here/.deps/icontract" ] || [ ! -d "$here/.deps/jsonschema" ]; then
    rm -rf "$here/.deps.tmp"
    PIP_NO_INDEX=1 /venv/bin/pip install --quiet --no-index --find-links /opt/veriftools/wheels \
        --target "$here/.deps.tmp" icontract deal jsonschema >/dev/null 2>&1 || {
        echo "setup: pip install failed" >&2; rm -rf "$here/.deps.tmp"; exit 3; }
    rm -rf "$here/.deps"
    mv "$here/.deps.tmp" "$here/.deps"
fi
mkdir -p "$here/evidence" "$here/replays"
echo "setup ok"
