#!/usr/bin/env python3
"""Mutation drill: self-test of the monitors.

For every mutant in drill/mutants.py a scratch copy of /repo's working tree is made OUTSIDE /repo and
/verif, one property-breaking edit is applied, the listed checks are run against it (VERIF_REPO) and
must exit 1; the scratch copy is removed afterwards.  Usage: drill/run.py [--only ID,...] [--props C01,..]
"""
import argparse, json, os, shutil, subprocess, sys, tempfile, time

HERE = os.path.realpath(os.path.join(os.path.dirname(__file__), ".."))
sys.path.insert(0, os.path.join(HERE, "drill"))
from mutants import MUTANTS  # noqa: E402


def main():
    ap = argparse.ArgumentParser()
    ap.add_argument("--only", default="")
    ap.add_argument("--props", default="")
    ap.add_argument("--tier", default="quick")
    ap.add_argument("--out", default=os.path.join(HERE, "drill", "kill_matrix.json"))
    a = ap.parse_args()
    only = set(filter(None, a.only.split(",")))
    props = set(filter(None, a.props.split(",")))
    rows = []
    for m in MUTANTS:
        if only and m["id"] not in only:
            continue
        if props and not (props & set(m["props"])):
            continue
        tmp = tempfile.mkdtemp(prefix="drill-")
        try:
            shutil.copytree("/repo/inferno", os.path.join(tmp, "inferno"), ignore=shutil.ignore_patterns("__pycache__"))
            path = os.path.join(tmp, m["file"])
            src = open(path).read()
            nth = m.get("nth")
            if nth is None and src.count(m["old"]) != 1 or nth is not None and src.count(m["old"]) <= nth:
                rows.append({"id": m["id"], "error": f"anchor text found {src.count(m['old'])} times"})
                print(f"{m['id']}: ANCHOR NOT UNIQUE ({src.count(m['old'])})")
                continue
            if nth is None:
                src = src.replace(m["old"], m["new"])
            else:
                parts = src.split(m["old"])
                src = m["old"].join(parts[: nth + 1]) + m["new"] + m["old"].join(parts[nth + 1:])
            open(path, "w").write(src)
            for pid in m["props"]:
                if props and pid not in props:
                    continue
                env = dict(os.environ, VERIF_REPO=tmp, VERIF_REPLAY_DIR=os.path.join(tmp, "replays"))
                t0 = time.time()
                r = subprocess.run([os.path.join(HERE, "check"), pid, "--tier", a.tier, "--no-evidence"],
                                   capture_output=True, text=True, env=env)
                mechs = [l.strip() for l in r.stdout.splitlines() if l.strip().startswith("unlisted mechanism=")]
                rows.append({"id": m["id"], "property": pid, "exit": r.returncode, "killed": r.returncode == 1,
                             "wall_s": round(time.time() - t0, 1), "mechanisms": mechs[:4], "note": m.get("note", "")})
                print(f"{m['id']:40s} {pid} exit={r.returncode} {'KILLED' if r.returncode == 1 else 'SURVIVED'} "
                      f"{(mechs[0][:110] if mechs else r.stdout.strip().splitlines()[-1][:110] if r.stdout.strip() else r.stderr[-200:])}")
        finally:
            shutil.rmtree(tmp, ignore_errors=True)
    if not only and not props:
        json.dump(rows, open(a.out, "w"), indent=1)
    return 0


if __name__ == "__main__":
    sys.exit(main())
