"""Property-breaking edits used by drill/run.py (text replacement: file, old -> new; old must be unique)."""

INFRA = "inferno/core/infrastructure.py"

MUTANTS = [
    # ---------------- C01 ----------------
    {"id": "c01_unwind_off_by_one", "props": ["C01"], "file": INFRA,
     "old": "    return (pointer - int(offset)) % size\n", "new": "    return (pointer - int(offset) - (1 if int(offset) > size else 0)) % size\n",
     "note": "scalar offsets beyond one lap land one slot early"},
    {"id": "c01_writerange_wrap_halves_swapped", "props": ["C01"], "file": INFRA,
     "old": "                        obs[slice(recordsz - ptr, None), ...].to(dtype=data.dtype),\n                        data[slice(length - (recordsz - ptr), ptr), ...],\n                        obs[slice(None, recordsz - ptr), ...].to(dtype=data.dtype),\n",
     "new": "                        obs[slice(None, length - (recordsz - ptr)), ...].to(dtype=data.dtype),\n                        data[slice(length - (recordsz - ptr), ptr), ...],\n                        obs[slice(length - (recordsz - ptr), None), ...].to(dtype=data.dtype),\n",
     "note": "wrapped non-in-place writerange writes halves in the wrong order"},
    {"id": "c01_align_wrong_sign", "props": ["C01"], "file": INFRA,
     "old": "            self.__data = data.roll(index - self.__pointer, 0)\n", "new": "            self.__data = data.roll(self.__pointer - index, 0)\n"},
    {"id": "c01_tensor_gather_plus", "props": ["C01"], "file": INFRA,
     "old": "    return (pointer - offset.long()) % size\n", "new": "    return (pointer - offset.long() + (offset.long() >= 2 * size).long()) % size\n",
     "note": "tensor offsets equal to 2N read the wrong slot"},
    {"id": "c01_push_inplace_no_incr_when_full_lap", "props": ["C01"], "file": INFRA,
     "old": "        self.write(obs, offset=0, inplace=inplace)\n        self.incr(1)\n",
     "new": "        self.write(obs, offset=0, inplace=inplace)\n        self.incr(1 if (self.__pointer + 1 < self.__recordsz or not inplace) else 1 + self.__recordsz * 0 + (self.__recordsz > 2))\n",
     "note": "in-place push at the last slot of a record with N>2 skips a slot"},
    # ---------------- C02 ----------------
    {"id": "c02_select_ceil_floor_swapped_tensor", "props": ["C02"], "file": INFRA,
     "old": "            prev_idx, next_idx = offset.ceil(), offset.floor()\n            stacked_idx = _unwind_tensor_ptr(\n                ptr, torch.cat((prev_idx, next_idx), 0), recordsz\n            )\n\n            # get stored observations at specified indices\n            prev_data, next_data = torch.tensor_split(\n                torch.gather(data, 0, stacked_idx),\n                (offset.shape[0],),\n",
     "new": "            prev_idx, next_idx = offset.floor(), offset.ceil()\n            stacked_idx = _unwind_tensor_ptr(\n                ptr, torch.cat((prev_idx, next_idx), 0), recordsz\n            )\n\n            # get stored observations at specified indices\n            prev_data, next_data = torch.tensor_split(\n                torch.gather(data, 0, stacked_idx),\n                (offset.shape[0],),\n"},
    {"id": "c02_select_scalar_sample_at", "props": ["C02"], "file": INFRA,
     "old": "                    fullc(data, dt - dt * (shift % 1), shape=data.shape[1:]),\n                    dt,\n                    **(interp_kwargs if interp_kwargs else {}),\n",
     "new": "                    fullc(data, dt * (shift % 1), shape=data.shape[1:]),\n                    dt,\n                    **(interp_kwargs if interp_kwargs else {}),\n"},
    {"id": "c02_select_tolerance_strict", "props": ["C02"], "file": INFRA,
     "old": "            if abs(dt * round(shift) - time) <= tolerance:\n                return data[", "new": "            if abs(dt * round(shift) - time) < tolerance / 4:\n                return data["},
    {"id": "c02_select_range_limit", "props": ["C02"], "file": INFRA,
     "old": "            if tmin < -tolerance or tmax > dt * (recordsz - 1) + tolerance:\n                raise ValueError(\n                    f\"all elements of 'time' (min={tmin}, max={tmax}) must be within \"\n                    f\"the valid range of observations including tolerance, the \"\n                    f\"interval [{-tolerance}, {dt * (recordsz - 1) + tolerance}]\"\n                )\n\n            # compute continuous shft\n            shift = time / dt\n            shiftr = shift.round()\n            shift = ein.rearrange(",
     "new": "            if tmin < -tolerance or tmax > dt * recordsz + tolerance:\n                raise ValueError(\n                    f\"all elements of 'time' (min={tmin}, max={tmax}) must be within \"\n                    f\"the valid range of observations including tolerance, the \"\n                    f\"interval [{-tolerance}, {dt * (recordsz - 1) + tolerance}]\"\n                )\n\n            # compute continuous shft\n            shift = time / dt\n            shiftr = shift.round()\n            shift = ein.rearrange("},
    {"id": "c02_insert_scalar_writes_floor_first", "props": ["C02"], "file": INFRA,
     "old": "                        math.ceil(offset),\n                        forward=True,\n", "new": "                        math.floor(offset),\n                        forward=True,\n"},
    {"id": "c02_insert_tensor_no_bypass", "props": ["C02"], "file": INFRA,
     "old": "                prev_exobs = torch.where(bypass, obs, prev_exobs)\n", "new": "                prev_exobs = torch.where(bypass & (shift > 0), obs, prev_exobs)\n",
     "note": "tensor insert at t=0 writes the extrapolated value instead of the observation"},
]
