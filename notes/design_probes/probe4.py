import torch, inferno, traceback, math, io, copy
from inferno import RecordTensor, Module, neural, learn, observe, functional as F
from inferno.extra import ExactNeuron
torch.manual_seed(0)
def t(name, fn):
    try:
        r = fn()
        print(f"[ok ] {name}: {r}")
    except Exception as e:
        tb = traceback.extract_tb(e.__traceback__)[-1]
        print(f"[EXC] {name}: {type(e).__name__}: {str(e)[:300]} @ {tb.filename.split('/')[-1]}:{tb.lineno}")

def build(delay=None, inplace=False):
    torch.manual_seed(1)
    c = neural.LinearDense(3,2,1.0,synapse=neural.SingleExponentialCurrent.partialconstructor(30.0, 5.0, inplace=inplace), delay=delay, batch_size=2)
    n = neural.ALIF(2,1.0,rest_v=-60.,reset_v=-65.,thresh_eq_v=-50.,refrac_t=2.,tc_membrane=20.,tc_adaptation=50., spike_increment=1.0, batch_size=2)
    l = neural.Serial(c,n)
    c.updater = c.defaultupdater()
    tr = learn.STDP(0.01,-0.01,20.,20.)
    tr.register_cell('a', l.cell)
    return l, tr

def run(l, tr, xs):
    outs=[]
    for x in xs:
        o = l(x); tr(); l.connection.update()
        outs.append((o.clone(), l.neuron.voltage.clone(), l.connection.weight.clone()))
    return outs

def ser(sd):
    b = io.BytesIO(); torch.save(sd, b); b.seek(0); return torch.load(b, weights_only=False)

def c12(delay):
    xs = [(torch.rand(2,3) < 0.5).float() for _ in range(20)]
    l, tr = build(delay)
    ref = run(l, tr, xs)
    l1, tr1 = build(delay)
    run(l1, tr1, xs[:7])
    sdl, sdt = ser(l1.state_dict()), ser(tr1.state_dict())
    l2, tr2 = build(delay)
    run(l2, tr2, [torch.zeros(2,3)])  # warm lazily shaped recorders
    print("  keys layer:", sorted(sdl.keys()))
    print("  keys trainer:", sorted(sdt.keys()))
    r1 = l2.load_state_dict(sdl); r2 = tr2.load_state_dict(sdt)
    cont = run(l2, tr2, xs[7:])
    diffs = [max((a.double()-b.double()).abs().max().item() for a,b in zip(x,y)) for x,y in zip(cont, ref[7:])]
    return r1, r2, max(diffs)
t("C12 resume no delay", lambda: c12(None))
t("C12 resume delay", lambda: c12(3.0))

# C12 into a fresh (never-run) instance
def c12fresh():
    xs = [(torch.rand(2,3) < 0.5).float() for _ in range(10)]
    l1, tr1 = build(None); run(l1,tr1,xs[:4])
    sdl, sdt = ser(l1.state_dict()), ser(tr1.state_dict())
    l2, tr2 = build(None)
    return l2.load_state_dict(sdl), tr2.load_state_dict(sdt)
t("C12 load into never-run", c12fresh)
