import torch, inferno, copy, sys
from inferno import neural
n = neural.LIF(2,1.0,rest_v=-60.,reset_v=-65.,thresh_v=-50.,refrac_t=2.,time_constant=20.)
n2 = copy.deepcopy(n)
print("deepcopy owner same as original?", n2.voltage_.owner is n, n2.voltage_.owner is n2)
n.to(torch.float64)
print(n.voltage.dtype, n.refrac.dtype)
out = n(torch.tensor([[0., 1000.]], dtype=torch.float64)); print(out, n.voltage.dtype)
a = neural.ALIF(2,1.0,rest_v=-60.,reset_v=-65.,thresh_eq_v=-50.,refrac_t=2.,tc_membrane=20.,tc_adaptation=(50.,20.), spike_increment=(1.0,0.5)).to(torch.float64)
a(torch.tensor([[0., 1000.]], dtype=torch.float64)); print(a.threshold_adaptation.dtype, a.tc_adaptation.dtype)
# patch nf
import inferno.neural.functional as nf
cnt={'n':0}; orig=nf.voltage_thresholding_constant
def w(*a,**k): cnt['n']+=1; return orig(*a,**k)
nf.voltage_thresholding_constant = w
n(torch.zeros(1,2,dtype=torch.float64)); print("patched calls", cnt)
print(sys.version, hasattr(sys,'monitoring'))
s = neural.SingleExponentialCurrent(3,1.0,spike_charge=1.0,time_constant=5.0,delay=2.0).to(torch.float64)
s(torch.ones(1,3,dtype=torch.float64)); print(s.current.dtype, s.spike.dtype)
