import torch, inferno, traceback, math, io
from inferno import RecordTensor, Module, neural, learn, observe, functional as F
from inferno.extra import ExactNeuron
torch.manual_seed(0)
def t(name, fn):
    try:
        r = fn()
        print(f"[ok ] {name}: {r}")
    except Exception as e:
        tb = traceback.extract_tb(e.__traceback__)[-1]
        print(f"[EXC] {name}: {type(e).__name__}: {str(e)[:200]} @ {tb.filename.split('/')[-1]}:{tb.lineno}")

# C06 dt=1.3 delay 3 steps
def c06a():
    dt=1.3
    c = neural.LinearDirect(2, dt, synapse=neural.DeltaCurrent.partialconstructor(1.0), delay=3*dt, weight_init=lambda w: torch.ones_like(w), delay_init=lambda d: torch.full_like(d, 3*dt))
    outs=[]
    for i in range(8):
        x = torch.tensor([[1.,0.]]) if i==0 else torch.zeros(1,2)
        outs.append(c(x)[0,0].item())
    return outs, c.synapse.spike_.recordsz
t("C06 dt=1.3 3-step delay impulse response", c06a)
def c06b():
    dt=1.0
    c = neural.LinearDirect(2, dt, synapse=neural.DeltaCurrent.partialconstructor(1.0), delay=3*dt, weight_init=lambda w: torch.ones_like(w), delay_init=lambda d: torch.full_like(d, 3*dt))
    outs=[]
    for i in range(8):
        x = torch.tensor([[1.,0.]]) if i==0 else torch.zeros(1,2)
        outs.append(c(x)[0,0].item())
    return outs, c.synapse.spike_.recordsz
t("C06 dt=1.0 3-step delay impulse response", c06b)

# C03 refrac 0
def c03a():
    n = neural.LIF(2,1.0,rest_v=-60.,reset_v=-65.,thresh_v=-50.,refrac_t=0.,time_constant=20.)
    out = n(torch.tensor([[0., 1000.]]))
    return out, n.spike
t("C03 refrac_t=0 spike attr", c03a)
def c03b():
    n = neural.LIF(2,1.0,rest_v=-60.,reset_v=-65.,thresh_v=-50.,refrac_t=2.,time_constant=20.)
    res=[]
    for i in range(5):
        out = n(torch.tensor([[0., 1000.]]))
        res.append((out.tolist(), n.spike.tolist(), n.refrac.tolist(), n.voltage.tolist()))
    return res
t("C03 refrac_t=2 trajectory", c03b)

# C05 conv
def c05a():
    c = neural.Conv2D(7,6,2,3,1.0,(3,2),stride=(2,1),padding=(1,0),dilation=(1,2),synapse=neural.DeltaPlusCurrent.partialconstructor(1.0), bias=True)
    x = torch.rand(2,2,7,6)
    c.batchsz=2
    y = c(torch.zeros_like(x), x)
    ref = torch.nn.functional.conv2d(x, c.weight, c.bias, stride=(2,1), padding=(1,0), dilation=(1,2))
    return (y-ref).abs().max().item(), y.shape, c.outshape
t("C05 conv vs conv2d", c05a)

# C15 two cells sharing a neuron; delete one
def c15c():
    c1 = neural.LinearDense(3,2,1.0,synapse=neural.DeltaCurrent.partialconstructor(1.0))
    c2 = neural.LinearDense(4,2,1.0,synapse=neural.DeltaCurrent.partialconstructor(1.0))
    n = neural.LIF(2,1.0,rest_v=-60.,reset_v=-65.,thresh_v=-50.,refrac_t=2.,time_constant=20.)
    l = neural.Biclique([('c1',c1),('c2',c2)],[('n',n)])
    c1.updater = c1.defaultupdater(); c2.updater = c2.defaultupdater()
    tr = learn.STDP(1.0,-1.0,20.,20.)
    tr.register_cell('a', l.cells_['c1']['n'])
    tr.register_cell('b', l.cells_['c2']['n'])
    ma = dict(tr.named_monitors_of('a')); mb = dict(tr.named_monitors_of('b'))
    shared = {k: ma[k] is mb[k] for k in ma}
    l({'c1': (torch.ones(1,3),), 'c2': (torch.ones(1,4),)})
    tr()
    tr.del_cell('a')
    l({'c1': (torch.ones(1,3),), 'c2': (torch.ones(1,4),)})
    reg = {k: m.registered for k,m in mb.items()}
    tr()
    return shared, reg
t("C15 shared monitors, del one cell", c15c)

# C08 triplet delayed
def c08a():
    c = neural.LinearDense(3,2,1.0,synapse=neural.DeltaCurrent.partialconstructor(1.0), delay=2.0)
    n = ExactNeuron((2,),1.0,rest_v=-60.,thresh_v=-50.)
    l = neural.Serial(c,n)
    c.updater = c.defaultupdater()
    tr = learn.TripletSTDP(1.,1.,-1.,1.,10.,20.,10.,20.,delayed=True)
    tr.register_cell('a', l.cell)
    c.delay = torch.ones_like(c.delay)
    for i in range(3):
        l(torch.ones(1,3), neuron_kwargs={'override': torch.ones(1,2).bool()})
        tr()
    return "ok"
t("C08 triplet delayed", c08a)
def c08b():
    c = neural.LinearDense(3,2,1.0,synapse=neural.DeltaCurrent.partialconstructor(1.0), delay=2.0)
    n = ExactNeuron((2,),1.0,rest_v=-60.,thresh_v=-50.)
    l = neural.Serial(c,n)
    c.updater = c.defaultupdater()
    tr = learn.STDP(1.,-1.,10.,10.,delayed=True)
    tr.register_cell('a', l.cell)
    c.delay = torch.ones_like(c.delay)
    w0 = c.weight.clone()
    for i in range(3):
        l(torch.ones(1,3), neuron_kwargs={'override': torch.ones(1,2).bool()})
        tr(); c.update()
    return (c.weight-w0)
t("C08 stdp delayed", c08b)

# C19 encoders
def c19a():
    e = neural.HomogeneousPoissonEncoder(200, 1.0, 100.0, refrac=5.0, generator=torch.Generator().manual_seed(1))
    s = e(torch.tensor([0.0, 0.5, 1.0]))
    isi = inferno.isi(s, 1.0)
    return s.shape, s.dtype, s.sum(0), torch.nan_to_num(isi, nan=1e9).amin(0)
t("C19 homog refrac=5", c19a)
def c19b():
    e = neural.HomogeneousPoissonEncoder(50, 1.0, 100.0, generator=torch.Generator().manual_seed(1))
    return torch.stack(list(e(torch.tensor([0.0, 0.5, 1.0]), online=True))).sum(0)
t("C19 homog online", c19b)
def c19c():
    e = neural.PoissonIntervalEncoder(50, 1.0, 100.0, generator=torch.Generator().manual_seed(1))
    a = e(torch.tensor([0.0, 0.5, 1.0]))
    b = torch.stack(list(e(torch.tensor([0.0, 0.5, 1.0]), online=True)))
    return a.shape, a.sum(0), b.shape, b.sum(0)
t("C19 poisson interval", c19c)
def c19d():
    e = neural.HomogeneousPoissonApproxEncoder(50, 1.0, 100.0, generator=torch.Generator().manual_seed(1))
    a = e(torch.tensor([0.0, 0.5, 1.0]))
    b = torch.stack(list(e(torch.tensor([0.0, 0.5, 1.0]), online=True)))
    return a.shape, a.sum(0), b.shape, b.sum(0)
t("C19 approx", c19d)
