import torch, inferno, traceback, math
from inferno import RecordTensor, Module, neural, learn, observe, functional as F
torch.manual_seed(0)
def t(name, fn):
    try:
        r = fn()
        print(f"[ok ] {name}: {r}")
    except Exception as e:
        print(f"[EXC] {name}: {type(e).__name__}: {str(e)[:200]}")

# C13: temporal setters on uninitialised storage
def c13a():
    m = Module(); RecordTensor.create(m, 'r', 1.0, 2.0, None)
    m.r.duration = 5.0
    return m.r.recordsz
t("C13 duration setter uninit", c13a)
def c13b():
    m = Module(); RecordTensor.create(m, 'r', 1.0, 2.0, torch.zeros(2))
    for i in range(5): m.r.push(torch.full((2,), float(i+1)))
    before=[m.r.read(k)[0].item() for k in range(1,4)]
    m.r.duration = 4.0
    after=[m.r.read(k)[0].item() for k in range(1,m.r.recordsz+1)]
    return before, after, m.r.recordsz, m.r.pointer
t("C13 grow", c13b)
def c13c():
    m = Module(); RecordTensor.create(m, 'r', 1.0, 4.0, torch.zeros(2))
    for i in range(6): m.r.push(torch.full((2,), float(i+1)))
    before=[m.r.read(k)[0].item() for k in range(1,5)]
    m.r.dt = 2.0
    after=[m.r.read(k)[0].item() for k in range(1,m.r.recordsz+1)]
    return before, after, m.r.recordsz, m.r.pointer
t("C13 shrink via dt", c13c)

# C04: spike_at with tolerance/overbound
def c04a():
    s = neural.DeltaCurrent(3, 1.0, spike_charge=1.0, delay=3.0, interp_tol=0.1, spike_overbound=False)
    for i in range(4): s(torch.tensor([[1.,0.,1.]]))
    return s.spike_at(torch.tensor([[[0.0],[10.0],[3.0]]]))
t("C04 spike_at tol>0 out of range", c04a)
def c04b():
    s = neural.DeltaCurrent(3, 1.0, spike_charge=1.0, delay=3.0, spike_overbound=None)
    for i in range(4): s(torch.tensor([[1.,0.,1.]]))
    return s.spike_at(torch.tensor([[[0.0],[10.0],[3.0]]]))
t("C04 spike_at overbound None", c04b)
def c04c():
    s = neural.DeltaPlusCurrent(3, 1.0, spike_charge=1.0, delay=3.0)
    outs=[]
    for i in range(4): outs.append(s(torch.tensor([[1.,0.,1.]])*(i%2)))
    return s.current_at(torch.tensor([[[0.0, 1.0, 2.0, 3.0]]*3])), s.spike_at(torch.tensor([[[0.0,1.0,2.0,3.0]]*3]))
t("C04 deltaplus current_at", c04c)

# C10
def c10a():
    c = neural.LinearDense(3,2,1.0,synapse=neural.DeltaCurrent.partialconstructor(1.0))
    return neural.Updater(c, 'weight', reduction=torch.amax)
t("C10 Updater with reduction", c10a)
def c10b():
    return F.bound_power(torch.zeros(2), torch.ones(2), torch.ones(2), 1.0, -1.0, upper_power=2.0, lower_power=2.0)
t("C10 bound_power", c10b)
def c10c():
    return F.bound_scaled_power(torch.zeros(2), torch.ones(2), torch.ones(2), 1.0, -1.0, upper_power=2.0, lower_power=2.0)
t("C10 bound_scaled_power", c10c)
def c10d():
    return F.bound_scaled_multiplicative(torch.zeros(2), torch.ones(2), torch.ones(2), 1.0, -1.0)
t("C10 bound_scaled_multiplicative", c10d)

# C14
def c14a():
    r = observe.PassthroughReducer(1.0, duration=2.0)
    r.duration = 5.0
    return r.dt, r.duration, r.data_.recordsz
t("C14 reducer duration setter", c14a)
def c14b():
    s = neural.DeltaCurrent(3, 1.0, spike_charge=1.0, delay=0.0)
    s.delay = 3.0
    s2 = neural.DeltaCurrent(3, 1.0, spike_charge=1.0, delay=3.0)
    return s.spike_.recordsz, s2.spike_.recordsz, s.delay, s.spike_.duration
t("C14 synapse delay setter", c14b)
def c14c():
    c = neural.LinearDense(3,2,1.0,synapse=neural.DeltaCurrent.partialconstructor(1.0))
    s2 = neural.DeltaCurrent(3, 1.0, spike_charge=2.0)
    c.synapse = s2
    return c.synapse is s2
t("C14 connection synapse setter", c14c)

# C17
def c17a():
    c = neural.LinearDense(3,2,1.0,synapse=neural.DeltaCurrent.partialconstructor(1.0))
    n = neural.LIF(2,1.0,rest_v=-60.,reset_v=-65.,thresh_v=-50.,refrac_t=2.,time_constant=20.)
    l = neural.Serial(c,n)
    l(torch.ones(1,3))
    l.clear()
    return "cleared"
t("C17 Layer.clear", c17a)

# C20
from inferno import stats
t("C20 lognormal logcdf", lambda: stats.LogNormal.logcdf(torch.tensor([1.0]), 0.0, 1.0))
t("C20 poisson pmf sum", lambda: stats.Poisson.pmf(torch.arange(0,50).float(), 3.0).sum())

# C15
def c15a():
    c = neural.LinearDense(3,2,1.0,synapse=neural.DeltaCurrent.partialconstructor(1.0))
    n = neural.LIF(2,1.0,rest_v=-60.,reset_v=-65.,thresh_v=-50.,refrac_t=2.,time_constant=20.)
    l = neural.Serial(c,n)
    c.updater = c.defaultupdater()
    tr = learn.STDP(1.0,-1.0,20.,20.)
    tr.register_cell('a', l.cell)
    return list(tr.monitors)
t("C15 trainer.monitors", c15a)
def c15b():
    c = neural.LinearDense(3,2,1.0,synapse=neural.DeltaCurrent.partialconstructor(1.0))
    n = neural.LIF(2,1.0,rest_v=-60.,reset_v=-65.,thresh_v=-50.,refrac_t=2.,time_constant=20.)
    l = neural.Serial(c,n)
    c.updater = c.defaultupdater()
    tr = learn.STDP(1.0,-1.0,20.,20.)
    tr.register_cell('a', l.cell)
    return list(tr.named_monitors), list(tr.cells), tr.update()
t("C15 trainer.named_monitors/cells/update", c15b)
