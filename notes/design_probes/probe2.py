import sys; sys.path.append('/root/scratch/deps')
import torch, inferno, icontract, time
from inferno import RecordTensor, Module
class InvBroken(Exception): pass
seen = {'n':0}
def ptr_in_range(self):
    seen['n'] += 1
    o = self.owner
    if o is None: return True
    v = self.value
    if self._ignore(v): return self.pointer == 0
    return 0 <= self.pointer < self.recordsz and v.shape[0] == self.recordsz
R = icontract.invariant(ptr_in_range, error=InvBroken)(RecordTensor)
print(R is RecordTensor)
m = Module(); RecordTensor.create(m, 'r', 1.0, 3.0, torch.zeros(2))
t0=time.time()
for i in range(2000): m.r.push(torch.ones(2)*i)
print(time.time()-t0, seen)
# break it
setattr(m, '_r_pointer', 7)
try:
    m.r.read(1)
except InvBroken as e:
    print("caught", str(e)[:100])
