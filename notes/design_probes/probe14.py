import sys, time, torch, inferno
from inferno import RecordTensor, Module
mon = sys.monitoring
TOOL = 3
mon.use_tool_id(TOOL, "rvcov")
hits=set()
target = inferno.core.infrastructure.__file__
def on_line(code, line):
    if code.co_filename == target: hits.add(line)
    return mon.DISABLE
mon.register_callback(TOOL, mon.events.LINE, on_line)
def run(n):
    m = Module(); RecordTensor.create(m,'r',1.0,5.0,torch.zeros(2,3))
    t0=time.time()
    for i in range(n):
        m.r.push(torch.ones(2,3)); m.r.readrange(3,1); m.r.writerange(torch.ones(2,3,2), 1); m.r.read(2)
    return 4*n/(time.time()-t0)
print("no cov ops/s", run(2000))
mon.set_events(TOOL, mon.events.LINE)
print("cov ops/s (first)", run(2000))
print("cov ops/s (steady)", run(2000))
mon.set_events(TOOL, 0)
print(len(hits), sorted(hits)[:10], [l for l in range(1747,1840) if l in hits][:15])
