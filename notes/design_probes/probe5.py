import torch, inferno, traceback, gc
from inferno import neural, learn, observe
from inferno.extra import ExactNeuron
def t(name, fn):
    try:
        print(f"[ok ] {name}: {fn()}")
    except Exception as e:
        tb = traceback.extract_tb(e.__traceback__)[-1]
        print(f"[EXC] {name}: {type(e).__name__}: {str(e)[:200]} @ {tb.filename.split('/')[-1]}:{tb.lineno}")
def mk(n_in=3):
    c = neural.LinearDense(n_in,2,1.0,synapse=neural.DeltaCurrent.partialconstructor(1.0))
    n = ExactNeuron((2,),1.0,rest_v=-60.,thresh_v=-50.)
    l = neural.Serial(c,n); c.updater = c.defaultupdater(); return l
def cross_trainer():
    l = mk()
    t1 = learn.MSTDPET(1.,-1.,10.,10.,20.); t1.register_cell('a', l.cell)
    before = l.cell.monitors['trace_pre']
    t2 = learn.STDP(0.5,-0.5,5.,5.); t2.register_cell('a', l.cell)
    after = l.cell.monitors['trace_pre']
    return before is after, before is t1.get_monitor('a','trace_pre'), after is t2.get_monitor('a','trace_pre')
t("C15 cross-trainer name clobber", cross_trainer)
def cross_layer():
    l1, l2 = mk(), mk()
    tr = learn.STDP(1.,-1.,10.,10.)
    tr.register_cell('a', l1.cell); tr.register_cell('b', l2.cell)
    return {k: tr.get_monitor('a',k) is tr.get_monitor('b',k) for k in ('trace_pre','trace_post','spike_pre','spike_post')}
t("C15 cross-layer pooling with same names", cross_layer)
def gc_drop():
    l = mk(); tr = learn.STDP(1.,-1.,10.,10.); tr.register_cell('a', l.cell)
    n0 = len(l._forward_hooks)
    del tr; gc.collect()
    return n0, len(l._forward_hooks)
t("C15 drop trainer", gc_drop)
def eval_gate():
    l = mk(); tr = learn.STDP(1.,-1.,10.,10.); tr.register_cell('a', l.cell)
    cnt = {'n':0}
    m = tr.get_monitor('a','spike_post'); orig = m.reducer_.forward
    def f(*a,**k): cnt['n']+=1; return orig(*a,**k)
    m.reducer_.forward = f
    res=[]
    for (lt, tt) in [(True,True),(False,True),(True,False),(False,False),(True,True)]:
        l.train(lt); tr.train(tt); l(torch.ones(1,3), neuron_kwargs={'override': torch.ones(1,2).bool()}); res.append(cnt['n'])
    return res
t("C15 mode gating counts", eval_gate)
