import torch, inferno, math
from inferno import RecordTensor, Module, observe
# C02 spy
rec=[]
def spy(prev, nxt, sample_at, step_time, **kw):
    rec.append((prev.clone(), nxt.clone(), sample_at.clone() if isinstance(sample_at, torch.Tensor) else sample_at, step_time))
    return prev*0 - 1
m = Module(); RecordTensor.create(m,'r',0.5,2.0,torch.zeros(2,dtype=torch.float64), inclusive=True)
N = m.r.recordsz; print("N",N)
for i in range(7): m.r.push(torch.tensor([100.+i, 200.+i],dtype=torch.float64))
print("hist k=1..N:", [m.r.read(k)[0].item() for k in range(1,N+1)], "ptr", m.r.pointer)
# tensor time: element0 on-grid at k=2 (t=1.0), element1 off grid at t=0.7 (k=1, frac .4)
out = m.r.select(torch.tensor([1.0, 0.7],dtype=torch.float64), spy, tolerance=1e-6)
print("out", out); p,n,s,dt = rec[-1]; print("prev",p,"next",n,"sample_at",s,dt)
# scalar
rec.clear(); print("scalar on-grid", m.r.select(1.0, spy), "calls", len(rec))
print("scalar off-grid", m.r.select(0.7, spy)); p,n,s,dt=rec[-1]; print("prev",p,"next",n,"sample_at",s)
for tt in [-1e-7, 2.0+1e-7, -1e-5, 2.0+1e-5]:
    try: m.r.select(tt, spy); print(tt,"ok")
    except ValueError as e: print(tt,"ValueError")
# C07 view
r = observe.CumulativeTraceReducer(1.0, 10.0, amplitude=2.0, target=True, duration=3.0, inclusive=True)
spk=[1,0,0,1,0,1,0]
vals=[]
for s in spk:
    r(torch.tensor([bool(s)])); vals.append(r.peek().item())
print(vals)
cf=[sum(2.0*math.exp(-(t-tf)/10.) for tf in range(t+1) if spk[tf]) for t in range(len(spk))]
print(cf)
print("view 0,1,2.5:", r.view(0.0).item(), r.view(1.0).item(), r.view(2.5).item(), "expected 2.5:", cf[-4]*math.exp(-0.5/10.))
print("dump", r.dump().flatten().tolist(), r.data_.recordsz)
r.clear(keepshape=True); print("after clear peek", r.peek(), r.view(0.0))
