import torch, inferno, math
from inferno import neural
torch.manual_seed(0)
D=torch.float64
dt=0.5; K=4
for cls in ['single','double','delta','deltaplus']:
  for inplace in [False, True]:
    if cls=='single': s = neural.SingleExponentialCurrent(3,dt,spike_charge=2.0,time_constant=5.0,delay=K*dt,inplace=inplace).to(D)
    elif cls=='double': s = neural.DoubleExponentialCurrent(3,dt,spike_charge=2.0,tc_decay=5.0,tc_rise=1.5,delay=K*dt,inplace=inplace).to(D)
    elif cls=='delta': s = neural.DeltaCurrent(3,dt,spike_charge=2.0,delay=K*dt,inplace=inplace).to(D)
    else: s = neural.DeltaPlusCurrent(3,dt,spike_charge=2.0,delay=K*dt,inplace=inplace).to(D)
    T=15; X=(torch.rand(T,1,3)<0.4).to(D); J=torch.randn(T,1,3,dtype=D)
    worst=0; hist=[]
    for t in range(T):
        out = s(X[t], J[t]) if cls=='deltaplus' else s(X[t])
        def cf(tt, i):
            if tt<0: return 0.0
            if cls=='single': return sum(2.0/5.0*math.exp(-(tt-f)*dt/5.0) for f in range(tt+1) if X[f,0,i])
            if cls=='double': return sum(2.0/(5.0-1.5)*(math.exp(-(tt-f)*dt/5.0)-math.exp(-(tt-f)*dt/1.5)) for f in range(tt+1) if X[f,0,i])
            if cls=='delta': return 2.0/dt*X[tt,0,i].item()
            return 2.0/dt*X[tt,0,i].item()+J[tt,0,i].item()
        exp = torch.tensor([[cf(t,i) for i in range(3)]],dtype=D)
        worst=max(worst,(out-exp).abs().max().item(), (s.current-exp).abs().max().item())
        assert torch.equal(s.spike, X[t].bool())
        # delayed on-grid reads
        sel = torch.tensor([[[0.0, dt, 2*dt, K*dt]]*3],dtype=D)
        ca = s.current_at(sel); sa = s.spike_at(sel)
        expc = torch.tensor([[[cf(t-k,i) for k in (0,1,2,K)] for i in range(3)]],dtype=D)
        exps = torch.tensor([[[bool(X[t-k,0,i]) if t-k>=0 else False for k in (0,1,2,K)] for i in range(3)]])
        worst=max(worst,(ca-expc).abs().max().item())
        assert torch.equal(sa, exps), (cls, t, sa, exps)
    # off-grid & out of range
    sel = torch.tensor([[[0.25*dt, 1.75*dt, K*dt+1.0, -1.0]]*3],dtype=D)
    print(cls, inplace, "worst", worst, "offgrid/oob current_at:", s.current_at(sel)[0,0].tolist())
    try: print("   spike_at:", s.spike_at(sel)[0,0].tolist())
    except Exception as e: print("   spike_at EXC", type(e).__name__, e)
