import torch, inferno, math, itertools
from inferno import neural, learn
from inferno.extra import ExactNeuron
torch.manual_seed(0)
def run(pre, post, lr_post, lr_pre, tc_post, tc_pre, mode, delay=None, dsteps=None, delayed=False, dt=1.0):
    T, n_in = pre.shape; n_out = post.shape[1]
    c = neural.LinearDense(n_in, n_out, dt, synapse=neural.DeltaCurrent.partialconstructor(1.0), delay=delay)
    if delay is not None: c.delay = dsteps.float()*dt
    n = ExactNeuron((n_out,), dt, rest_v=-60., thresh_v=-50.)
    l = neural.Serial(c, n); c.updater = c.defaultupdater()
    tr = learn.STDP(lr_post, lr_pre, tc_post, tc_pre, delayed=delayed, trace_mode=mode, batch_reduction=torch.sum)
    tr.register_cell('a', l.cell)
    w0 = c.weight.clone(); dws=[]
    for t in range(T):
        l(pre[t][None].float(), neuron_kwargs={'override': post[t][None]})
        tr(); c.update()
        dws.append((c.weight - w0).clone()); w0 = c.weight.clone()
    return torch.stack(dws)
def oracle(pre, post, lr_post, lr_pre, tc_post, tc_pre, mode, dsteps=None, dt=1.0):
    T, n_in = pre.shape; n_out = post.shape[1]
    out = torch.zeros(T, n_out, n_in, dtype=torch.float64)
    for o in range(n_out):
        for i in range(n_in):
            d = 0 if dsteps is None else int(dsteps[o,i])
            tpre = [t+d for t in range(T) if pre[t,i]]   # arrival times
            tpost = [t for t in range(T) if post[t,o]]
            for t in range(T):
                v = 0.0
                if t in tpost:
                    ps = [tp for tp in tpre if tp <= t]
                    if mode=='nearest': ps = ps[-1:]
                    v += sum(lr_post*math.exp(-(t-tp)*dt/tc_pre) for tp in ps)
                if t in tpre:
                    ps = [tp for tp in tpost if tp <= t]
                    if mode=='nearest': ps = ps[-1:]
                    v += sum(lr_pre*math.exp(-(t-tp)*dt/tc_post) for tp in ps)
                out[t,o,i] = v
    return out
worst = 0
for trial in range(30):
    T=12; n_in=3; n_out=2
    pre = torch.rand(T,n_in) < 0.4; post = torch.rand(T,n_out) < 0.4
    lrp, lrm = [(1.,-0.5),(-1.,0.5),(1.,0.5),(-1.,-0.5)][trial%4]
    mode = ['cumulative','nearest'][(trial//4)%2]
    for (delay, delayed) in [(None,False),(3.0,False),(3.0,True)]:
        ds = None if delay is None else torch.randint(0,4,(n_out,n_in))
        got = run(pre,post,lrp,lrm,7.,11.,mode,delay,ds,delayed)
        exp = oracle(pre,post,lrp,lrm,7.,11.,mode,ds)
        err = (got.double()-exp).abs().max().item()
        worst=max(worst,err)
        if err>1e-4: print("MISMATCH", trial, mode, delay, delayed, lrp, lrm, err); break
print("worst", worst)
