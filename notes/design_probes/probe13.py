import torch, inferno, math
from inferno import neural, learn, functional as F
from inferno.extra import ExactNeuron
torch.manual_seed(0)
def mk(dt, K, n_in=3, n_out=2):
    c = neural.LinearDense(n_in,n_out,dt,synapse=neural.DeltaCurrent.partialconstructor(1.0),delay=K*dt)
    n = ExactNeuron((n_out,),dt,rest_v=-60.,thresh_v=-50.)
    l = neural.Serial(c,n); c.updater=c.defaultupdater(); return l
dt=1.0; K=3; T=14
worst=0; worstx=0
for trial in range(12):
    lp, ln = [(1.,-0.5),(-1.,0.5),(1.,0.5),(-1.,-0.5)][trial%4]
    pre=(torch.rand(T,3)<0.3); post=(torch.rand(T,2)<0.3)
    ds = torch.randint(0,K+1,(2,3)).float()*dt
    l1, l2 = mk(dt,K), mk(dt,K)
    l2.connection.weight = l1.connection.weight.clone()
    l1.connection.delay = ds.clone(); l2.connection.delay = ds.clone()
    t1 = learn.DelayAdjustedSTDP(lp, ln, 7., 11., batch_reduction=torch.sum); t1.register_cell('a', l1.cell)
    t2 = learn.DelayAdjustedKernelSTDP(F.exp_stdp_post_kernel, F.exp_stdp_pre_kernel, {'learning_rate':lp,'time_constant':7.}, {'learning_rate':ln,'time_constant':11.}, batch_reduction=torch.sum); t2.register_cell('a', l2.cell)
    lastpre=[None]*3; lastpost=[None]*2
    for t in range(T):
        w0=l1.connection.weight.clone(); w20=l2.connection.weight.clone()
        for l,tr in ((l1,t1),(l2,t2)):
            l(pre[t][None].float(), neuron_kwargs={'override': post[t][None]}); tr(); l.connection.update()
        for i in range(3):
            if pre[t,i]: lastpre[i]=t
        for o in range(2):
            if post[t,o]: lastpost[o]=t
        exp=torch.zeros(2,3,dtype=torch.float64)
        for o in range(2):
            for i in range(3):
                if lastpre[i] is None or lastpost[o] is None: continue
                td = (lastpost[o]-lastpre[i])*dt - ds[o,i].item()
                exp[o,i] = lp*math.exp(-abs(td)/7.) if td>=0 else ln*math.exp(-abs(td)/11.)
        got=(l1.connection.weight-w0).double(); got2=(l2.connection.weight-w20).double()
        worst=max(worst,(got-exp).abs().max().item()); worstx=max(worstx,(got-got2).abs().max().item())
print("formula worst", worst, "cross-impl worst", worstx)
