import torch, inferno, math
from inferno import neural
torch.manual_seed(0)
D=torch.float64
def step_oracle(kind, P, v, r, I, adapt, lock):
    dt=P['dt']
    r1 = (r-dt).clamp(min=0); mask = r1==0
    Ieff = I - adapt.sum(-1) if kind=='adex' else I
    Im = Ieff*mask
    if kind=='lif':
        dec = math.exp(-dt/P['tau']); ext = P['R']*Im
        vint = P['rest'] + (v-P['rest']-ext)*dec + ext
        theta = torch.full_like(v, P['thresh'])
    else:
        vint = v + dt/P['tau']*(-(v-P['rest']) + P['sharp']*torch.exp((v-P['vt'])/P['sharp']) + P['R']*Im)
        theta = torch.full_like(v, P['thresh'])
    vint2 = torch.where(mask, vint, v) if lock else vint
    spk = mask & (vint2>=theta)
    vout = torch.where(spk, torch.full_like(v,P['reset']), vint2)
    rout = torch.where(spk, torch.full_like(r,P['refrac']), r1)
    return spk, vout, rout, (vint2-theta)
worst=0; skipped=0; n=0
for trial in range(40):
    dt = [1.0,0.5,0.1][trial%3]; refrac=[0.0,dt,2*dt,2.5*dt,0.3][trial%5]; lock = trial%2==0
    if trial%4<2:
        kind='lif'; P=dict(dt=dt,rest=-65.,reset=-70.,thresh=-50.,refrac=refrac,tau=20.,R=2.0)
        nrn = neural.LIF((3,),dt,rest_v=P['rest'],reset_v=P['reset'],thresh_v=P['thresh'],refrac_t=refrac,time_constant=P['tau'],resistance=P['R'],batch_size=2).to(D)
    else:
        kind='adex'; P=dict(dt=dt,rest=-70.,reset=-58.,thresh=-30.,refrac=refrac,tau=10.,R=1.5,sharp=2.0,vt=-50.)
        nrn = neural.AdEx((3,),dt,rest_v=P['rest'],rheobase_v=P['vt'],sharpness=P['sharp'],reset_v=P['reset'],thresh_v=P['thresh'],refrac_t=refrac,tc_membrane=P['tau'],tc_adaptation=(100.,30.),voltage_coupling=(1e-3,2e-3),spike_increment=(0.1,0.2),resistance=P['R'],batch_size=2).to(D)
    for t in range(60):
        I = torch.randn(2,3,dtype=D)*40+20
        v,r = nrn.voltage.clone(), nrn.refrac.clone()
        ad = nrn.current_adaptation.clone() if kind=='adex' else torch.zeros(3,1,dtype=D)
        es, ev, er, margin = step_oracle(kind,P,v,r,I,ad,lock)
        s = nrn(I, refrac_lock=lock)
        ok = margin.abs()>1e-7
        skipped += (~ok).sum().item(); n+=ok.numel()
        if not torch.equal(s[ok], es[ok]): print("SPIKE MISMATCH", kind, trial, t); break
        worst=max(worst,(nrn.voltage-ev)[ok].abs().max().item(), (nrn.refrac-er)[ok].abs().max().item())
        if refrac>0 and not torch.equal(nrn.spike, s): print("spike attr mismatch", trial, t); break
print("worst", worst, "skipped", skipped, "of", n)
