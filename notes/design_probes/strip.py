import sys, ast
def strip(path):
    src=open(path).read()
    tree=ast.parse(src)
    lines=src.splitlines()
    kill=set()
    for node in ast.walk(tree):
        if isinstance(node,(ast.FunctionDef,ast.ClassDef,ast.AsyncFunctionDef,ast.Module)):
            b=node.body
            if b and isinstance(b[0],ast.Expr) and isinstance(getattr(b[0],'value',None),ast.Constant) and isinstance(b[0].value.value,str):
                for i in range(b[0].lineno,b[0].end_lineno+1): kill.add(i)
    out=[]
    for i,l in enumerate(lines,1):
        if i in kill:
            if i-1 not in kill: out.append(f"{i:5d}  <doc>")
            continue
        if l.strip()=="" : continue
        out.append(f"{i:5d}  {l}")
    return "\n".join(out)
for p in sys.argv[1:]:
    print("#### ",p); print(strip(p))
