import torch, inferno, traceback, io
from inferno import neural, learn, observe, Module, RecordTensor, ShapedTensor
torch.manual_seed(0)
def t(name, fn):
    try: print(f"[ok ] {name}: {fn()}")
    except Exception as e:
        tb = traceback.extract_tb(e.__traceback__)[-1]
        print(f"[EXC] {name}: {type(e).__name__}: {str(e)[:250]} @ {tb.filename.split('/')[-1]}:{tb.lineno}")
def ser(sd):
    b = io.BytesIO(); torch.save(sd, b); b.seek(0); return torch.load(b, weights_only=False)
def lif(n, B=1): return neural.LIF(n,1.0,rest_v=-60.,reset_v=-65.,thresh_v=-50.,refrac_t=2.,time_constant=20.,batch_size=B)
def dense(i,o,B=1,delay=None): return neural.LinearDense(i,o,1.0,synapse=neural.DeltaCurrent.partialconstructor(30.0),delay=delay,batch_size=B)
def mkrec():
    torch.manual_seed(3)
    return neural.RecurrentSerial(dense(4,3), neural.LinearDirect(3,1.0,synapse=neural.DeltaCurrent.partialconstructor(30.0)), dense(3,3), lif(3), lif(3))
def c12rec():
    xs=[(torch.rand(1,4)<0.6).float() for _ in range(12)]
    a=mkrec(); ref=[tuple(o.clone() for o in a(x)) for x in xs]
    b=mkrec(); [b(x) for x in xs[:5]]
    sd=ser(b.state_dict())
    c=mkrec(); c(torch.zeros(1,4))
    r=c.load_state_dict(sd)
    cont=[tuple(o.clone() for o in c(x)) for x in xs[5:]]
    return r, all(torch.equal(p[0],q[0]) and torch.equal(p[1],q[1]) for p,q in zip(cont,ref[5:]))
t("C12 RecurrentSerial resume", c12rec)
def c12rec_fresh():
    b=mkrec(); [b((torch.rand(1,4)<0.6).float()) for _ in range(3)]
    sd=ser(b.state_dict()); c=mkrec(); return c.load_state_dict(sd)
t("C12 RecurrentSerial load into fresh", c12rec_fresh)
def c17rec_clear():
    a=mkrec(); a(torch.ones(1,4)); a.clear(); return "ok"
t("C17 RecurrentSerial.clear", c17rec_clear)
def c17bic():
    l = neural.Biclique([('a',dense(3,2)),('b',dense(4,2))],[('n',lif(2)),('m',lif(2))],combine='mean')
    out = l({'a':(torch.ones(1,3),),'b':(torch.ones(1,4),)})
    return {k:v.shape for k,v in out.items()}
t("C17 Biclique mean", c17bic)
def classifier():
    c = learn.MaxRateClassifier((3,),4)
    c(torch.rand(5,3), torch.tensor([0,1,2,3,1]))
    sd = ser(c.state_dict()); d = learn.MaxRateClassifier((3,),4); d.load_state_dict(sd)
    return torch.equal(c.assignments,d.assignments), torch.equal(c.proportions,d.proportions), torch.equal(c.occurrences, d.occurrences)
t("C12 classifier", classifier)
# C13 misc
def c13neg():
    m=Module(); ShapedTensor.create(m,'s',torch.zeros(2,3,4),{0:2,-1:4})
    m.s.reconstrain(-1,6); a=m.s.value.shape
    try: m.s.reconstrain(1,5); r="added?!"
    except ValueError as e: r="refused"
    return a, r, m.s.constraints, m.s.valid
t("C13 shaped neg dims", c13neg)
def c13incl():
    m=Module(); RecordTensor.create(m,'r',1.0,3.0,torch.zeros(2))
    for i in range(5): m.r.push(torch.full((2,),float(i+1)))
    m.r.inclusive=True
    return m.r.recordsz, [m.r.read(k)[0].item() for k in range(1,m.r.recordsz+1)]
t("C13 inclusive setter", c13incl)
def c13dtnr():
    m=Module(); RecordTensor.create(m,'r',0.1,0.3,torch.zeros(2))
    a=m.r.recordsz; m.r.dt=0.3; b=m.r.recordsz; m.r.duration=0.9; return a,b,m.r.recordsz
t("C13 nonrepresentable", c13dtnr)
# C14 neuron batchsz / connection dt
def c14n():
    n=lif(3,B=2); n(torch.ones(2,3)*100); n.batchsz=4; return n.voltage.shape, n.refrac.shape, n.batchedshape
t("C14 neuron batchsz", c14n)
def c14c():
    c=dense(3,2,delay=3.0); c.dt=0.5; s=c.synapse
    c2=neural.LinearDense(3,2,0.5,synapse=neural.DeltaCurrent.partialconstructor(30.0),delay=3.0)
    return s.dt, s.delay, s.spike_.recordsz, c2.synapse.spike_.recordsz, s.spike_.dt, s.spike_.duration
t("C14 connection dt", c14c)
def c14b():
    c=dense(3,2,B=2,delay=3.0); c.batchsz=3; return c.synapse.spike_.value.shape, c.batched_inshape, c(torch.ones(3,3)).shape
t("C14 connection batchsz", c14b)
def c14to():
    c=dense(3,2,delay=2.0).to(torch.float64); y=c(torch.ones(1,3,dtype=torch.float64)); return y.dtype, c.synapse.spike_.value.dtype, c.synapse.current.dtype
t("C14 .to(float64)", c14to)
