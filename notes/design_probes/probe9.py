import torch, inferno, math
from inferno import neural
torch.manual_seed(0)
def trial(dt, K, tol, syn, seed):
    g = torch.Generator().manual_seed(seed)
    n_in, n_out, T = 3, 2, 3*K+6
    if syn=='delta': sc = neural.DeltaCurrent.partialconstructor(1.0, interp_tol=tol)
    else: sc = neural.SingleExponentialCurrent.partialconstructor(1.0, 5.0, interp_tol=tol)
    D = neural.LinearDense(n_in,n_out,dt,synapse=sc,delay=K*dt)
    U = neural.LinearDense(n_in,n_out,dt,synapse=sc)
    U.weight = D.weight.clone()
    ks = torch.randint(0,K+1,(n_out,n_in),generator=g)
    D.delay = ks.float()*dt
    xs = (torch.rand(T,1,n_in,generator=g) < 0.5).float()
    hist=[]; worst=0
    for t in range(T):
        yD = D(xs[t]); U(xs[t]); hist.append(U.synapse.current.clone())
        exp = torch.zeros(1,n_out)
        for o in range(n_out):
            for i in range(n_in):
                tt = t-int(ks[o,i])
                if tt>=0: exp[0,o] += D.weight[o,i]*hist[tt][0,i]
        worst=max(worst,(yD-exp).abs().max().item())
    return worst, D.synapse.spike_.recordsz
for dt in [1.0,0.5,0.1,1.3,0.7]:
    for K in [1,3,5]:
        for tol in [0.0,1e-3]:
            for syn in ['delta','exp']:
                w = max(trial(dt,K,tol,syn,s)[0] for s in range(5))
                rs = trial(dt,K,tol,syn,0)[1]
                if w>1e-5: print(f"dt={dt} K={K} tol={tol} {syn}: worst={w:.4g} recordsz={rs}")
print("done")
