import torch, inferno, traceback, gc, warnings
from inferno import neural, Module, Hook, StateHook, functional as F
import torch.nn as nn
torch.manual_seed(0)
def t(name, fn):
    try: print(f"[ok ] {name}: {fn()}")
    except Exception as e:
        tb = traceback.extract_tb(e.__traceback__)[-1]
        print(f"[EXC] {name}: {type(e).__name__}: {str(e)[:250]} @ {tb.filename.split('/')[-1]}:{tb.lineno}")
class M(Module):
    def __init__(s): Module.__init__(s); s.w = nn.Parameter(torch.randn(3,4)*5, False)
    def forward(s,x): return x
def c16a():
    m=M(); c=neural.Clamping(m,'w',min=-1.0,max=2.0); c.register(); m(torch.zeros(1))
    return m.w.min().item()>=-1, m.w.max().item()<=2, len(m._forward_hooks)
t("C16 clamp", c16a)
def c16b():
    m=M(); m.w.data[0]=0
    h=neural.Normalization(m,'w',order=2,scale=-3.0,dim=-1); h.register(); m(torch.zeros(1))
    return m.w.norm(2,dim=-1).tolist()
t("C16 norm scale neg, zero row", c16b)
def c16c():
    m=M(); calls=[]
    h=Hook(posthook=lambda mod,a,o: calls.append(1)); h.register(m); m(torch.zeros(1))
    del h; gc.collect(); m(torch.zeros(1)); return len(calls), len(m._forward_hooks)
t("C16 gc of Hook", c16c)
def c16d():
    m=M(); c=neural.Clamping(m,'w',min=-1.0); c.register(); n0=len(m._forward_hooks)
    del c; gc.collect(); m(torch.zeros(1)); return n0, len(m._forward_hooks)
t("C16 gc of StateHook", c16d)
def c16e():
    m=M(); calls=[]
    h=Hook(prehook=lambda mod,a: calls.append('pre'), posthook=lambda mod,a,o: calls.append('post'), train_update=True, eval_update=False)
    h.register(m); m(torch.zeros(1)); m.eval(); m(torch.zeros(1)); m.train(); h.deregister(); m(torch.zeros(1))
    return calls, h.registered
t("C16 modes", c16e)
def c16f():
    m=M(); h=neural.Normalization(m,'w',order=1,scale=2.0,dim=(0,1)); h.register(); m(torch.zeros(1)); return m.w.abs().sum().item()
t("C16 norm multi-dim", c16f)
# C10
def c10():
    c=neural.LinearDense(3,2,1.0,synapse=neural.DeltaCurrent.partialconstructor(1.0)); u=c.defaultupdater(); c.updater=u
    w0=c.weight.clone(); c.update(); same = torch.equal(c.weight,w0)
    u.weight=(torch.ones(2,3),None); u.weight=(torch.ones(2,3)*2,torch.ones(2,3)); c.update(); d1=(c.weight-w0)[0,0].item()
    c.update(); d2=(c.weight-w0)[0,0].item()
    u.weight.upperbound(F.bound_upper_multiplicative, 1.0); u.weight.lowerbound(F.bound_lower_sharp, 0.0)
    u.weight=(torch.ones(2,3)*0.1, torch.ones(2,3)*0.1); w1=c.weight.clone(); c.update()
    return same, d1, d2, ((c.weight-w1) - ((1-w1)*0.1 - torch.heaviside(w1, torch.zeros(()))*0.1)).abs().max().item()
t("C10 basic algebra", c10)
