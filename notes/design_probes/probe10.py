import torch, inferno, time
torch.set_num_threads(1)
from inferno import RecordTensor, Module, neural, learn
from inferno.extra import ExactNeuron
m = Module(); RecordTensor.create(m,'r',1.0,5.0,torch.zeros(2,3))
t0=time.time(); n=3000
for i in range(n):
    m.r.push(torch.ones(2,3)); m.r.readrange(3,1); m.r.writerange(torch.ones(2,3,2), 1); m.r.read(2)
print("record ops/s", 4*n/(time.time()-t0))
c = neural.LinearDense(5,4,1.0,synapse=neural.DeltaCurrent.partialconstructor(1.0), delay=3.0)
nn_ = ExactNeuron((4,),1.0,rest_v=-60.,thresh_v=-50.)
l = neural.Serial(c,nn_); c.updater=c.defaultupdater()
tr = learn.STDP(1.,-1.,10.,10.,delayed=True); tr.register_cell('a', l.cell)
t0=time.time(); n=500
for i in range(n):
    l(torch.ones(1,5), neuron_kwargs={'override': torch.ones(1,4).bool()}); tr(); c.update()
print("layer+trainer steps/s", n/(time.time()-t0))
lif = neural.AdEx(10,1.0,rest_v=-70.,rheobase_v=-50.,sharpness=2.,reset_v=-58.,thresh_v=-30.,refrac_t=2.,tc_membrane=10.,tc_adaptation=100.,voltage_coupling=1e-3,spike_increment=0.1,batch_size=2)
t0=time.time(); n=2000
for i in range(n): lif(torch.rand(2,10)*50)
print("neuron steps/s", n/(time.time()-t0))
t0=time.time()
for i in range(50):
    c = neural.LinearDense(5,4,1.0,synapse=neural.DeltaCurrent.partialconstructor(1.0), delay=3.0)
    nn_ = ExactNeuron((4,),1.0,rest_v=-60.,thresh_v=-50.)
    l = neural.Serial(c,nn_); c.updater=c.defaultupdater()
    tr = learn.STDP(1.,-1.,10.,10.,delayed=True); tr.register_cell('a', l.cell)
print("build/s", 50/(time.time()-t0))
