#!/usr/bin/env python3
"""Diagnostic: which optional parameters of the functions in a property's anchor files did the quick workload never vary,
and which functions did it never call.  Usage: tools/argcov.py C05 [C06 ...]   (not part of any verdict)"""
import json, os, subprocess, sys, tempfile, shutil
V = os.path.realpath(os.path.join(os.path.dirname(__file__), ".."))
repo = os.environ.get("VERIF_REPO", "/repo")
for pid in sys.argv[1:]:
    tmp = tempfile.mkdtemp(prefix="argcov-")
    try:
        procs = []
        for sh in range(8):
            out = os.path.join(tmp, f"s{sh}.json")
            env = dict(os.environ, VERIF_ARGCOV="1", PYTHONPATH=f"{repo}:{V}", OMP_NUM_THREADS="1", PYTHONDONTWRITEBYTECODE="1")
            procs.append(subprocess.Popen(["/venv/bin/python", "-m", "rv.shard", "--prop", pid, "--tier", "quick", "--shard", str(sh),
                                           "--nshards", "8", "--repo", repo, "--verif", V, "--out", out, "--soft", "200"],
                                          cwd=V, env=env, stdout=subprocess.DEVNULL, stderr=subprocess.DEVNULL))
        for p in procs:
            p.wait()
        calls, varied = {}, {}
        for sh in range(8):
            f = os.path.join(tmp, f"s{sh}.json.argcov")
            if not os.path.exists(f):
                continue
            d = json.load(open(f))
            for k, v in d["calls"].items():
                calls[k] = calls.get(k, 0) + v
            for k, v in d["varied"].items():
                cur = varied.setdefault(k, {})
                for n, b in v.items():
                    cur[n] = cur.get(n, False) or b
        print(f"=== {pid}: functions in anchor files {len(calls)}, called {sum(1 for v in calls.values() if v)}")
        for k in sorted(calls):
            if calls[k] == 0:
                print(f"  never called: {k}")
        for k in sorted(varied):
            nv = [n for n, b in varied[k].items() if not b]
            if calls.get(k) and nv:
                print(f"  default only: {k}({', '.join(nv)})   [{calls[k]} calls]")
    finally:
        shutil.rmtree(tmp, ignore_errors=True)
