#!/usr/bin/env python3
"""Prepare a seeding round: one scratch git worktree of /repo per property (outside /repo and /verif) holding only the
property text and the prompt.  Usage: tools/seed_prep.py <round-dir e.g. /tmp/seed3> [C01,C02,...]
Nothing from /verif is copied into the worktree except the text of the property and one-line descriptions of the
earlier seeded changes for that property (so that a different mechanism is chosen)."""
import glob, json, os, subprocess, sys
here = os.path.realpath(os.path.join(os.path.dirname(__file__), ".."))
root = sys.argv[1]
only = set(sys.argv[2].split(",")) if len(sys.argv) > 2 else None
tmpl = open(os.path.join(here, "notes", "seed_prompt.tmpl")).read()
os.makedirs(root, exist_ok=True)
for line in open(os.path.join(here, "properties.jsonl")):
    p = json.loads(line)
    pid = p["id"]
    if only and pid not in only:
        continue
    d = os.path.join(root, pid)
    subprocess.run(["git", "-C", "/repo", "worktree", "add", "--detach", d, "HEAD"], check=True, capture_output=True)
    os.makedirs(os.path.join(d, "seed"))
    text = json.dumps({k: p[k] for k in p if k != "id"}, indent=1)
    open(os.path.join(d, "seed", "PROPERTY.txt"), "w").write(text)
    prev = []
    for sd in sorted(glob.glob(os.path.join(here, "seeded", pid + "-*"))):
        m = json.load(open(os.path.join(sd, "meta.json")))
        files = sorted({l[6:].strip() for l in open(os.path.join(sd, "patch.diff")) if l.startswith("+++ b/")})
        prev.append(f"({len(prev) + 1}) a change in {', '.join(files)} that needs: {m['needs_to_manifest']}.")
    prompt = tmpl.replace("@DIR@", d).replace("@PROP@", text).replace("@PREV@", " ".join(prev) or "none so far.")
    open(os.path.join(d, "seed", "PROMPT.txt"), "w").write(prompt)
    print("prepared", d)
