#!/usr/bin/env python3
"""Regenerates /verif/MANIFEST.json from rv/meta.py (checks for built monitors; the rest under not_applicable)."""
import json, os, subprocess, sys
here = os.path.realpath(os.path.join(os.path.dirname(__file__), ".."))
sys.path.insert(0, here)
from rv.meta import META, MANIFEST_TEXT, NOT_APPLICABLE  # noqa: E402

props = [json.loads(l) for l in open(os.path.join(here, "properties.jsonl"))]
checks, na = [], []
for p in props:
    pid = p["id"]
    if pid in META and pid not in NOT_APPLICABLE:
        t = MANIFEST_TEXT[pid]
        checks.append({
            "property_id": pid,
            "quick_cmd": f"./check {pid} --tier quick",
            "thorough_cmd": f"./check {pid} --tier thorough",
            "evidence_file": f"evidence/{pid}.json",
            "replay_cmd_template": f"./check {pid} --replay {{path}}",
            "engine": "rv",
            "level_claimed": {"category": "exploration", "text": t["text"], "design_ref": f"DESIGN.md section 2, {pid}"},
            "level_note": t["note"],
            "technique": t["technique"],
        })
    else:
        na.append({"property_id": pid, "reason": NOT_APPLICABLE.get(pid, "runtime monitor not built yet in this round (no claim made); the technique applies, see DESIGN.md section 2")})
fixes = subprocess.run(["git", "-C", "/repo", "log", "--format=%h %s"], capture_output=True, text=True).stdout.splitlines()
hook_commits = [l.split()[0] for l in fixes if "INFERNO_VERIF" in l or l.split(" ", 1)[1].startswith("verif-hook:")]
m = {
    "version": 1,
    "setup_cmd": "./setup.sh",
    "hooks": {
        "guard": "INFERNO_VERIF",
        "enable": "no source hooks are needed: all instrumentation is installed from the harness at run time (class-level wrappers, icontract invariants, sys.monitoring); checks export INFERNO_VERIF=1 for completeness",
        "baseline_off_cmd": "cd /repo && env -u INFERNO_VERIF /venv/bin/python -m pytest -q -p no:cacheprovider --timeout=900",
        "source_commits": hook_commits,
        "add_only": True,
    },
    "engines": [{"name": "rv", "path": "rv/", "serves_properties": [c["property_id"] for c in checks],
                 "kind_free_text": "runtime monitoring: generated workloads against the real inferno code under reference-model, invariant and relational monitors; sharded subprocess runner with three-valued verdicts"}],
    "checks": checks,
    "notes": "Every check is ./check <ID> [--tier quick|thorough]; VERIF_SEED / VERIF_TIER are honoured; exit 0 held, 1 VIOLATION, 2 INCONCLUSIVE. Known findings: known_findings.json (read-only at run time). Repository fixes are unguarded 'fix:' commits in /repo, recorded as fixed in known_findings.json.",
    "not_applicable": na,
}
json.dump(m, open(os.path.join(here, "MANIFEST.json"), "w"), indent=1)
print(f"{len(checks)} checks, {len(na)} not claimed")
