#!/usr/bin/env python3
"""Evaluate seeded property-breaking changes (/verif/seeded/<id>/patch.diff) against the checks.

For each seeded change: copy /repo's working tree to a scratch directory outside /repo and /verif, apply the
patch there, optionally confirm the demonstration (fails with the change, passes without), run the named
checks against the scratch copy (VERIF_REPO) and record which ones report a violation.  The scratch copy is
removed afterwards.  Usage: tools/seed_eval.py [--only ID,...] [--tier quick] [--all-props] [--demo] [--suite]
"""
import argparse, json, os, shutil, subprocess, sys, tempfile, time

HERE = os.path.realpath(os.path.join(os.path.dirname(__file__), ".."))
ALL = [f"C{i:02d}" for i in range(1, 21)]


def sh(cmd, **kw):
    return subprocess.run(cmd, capture_output=True, text=True, **kw)


def main():
    ap = argparse.ArgumentParser()
    ap.add_argument("--only", default="")
    ap.add_argument("--tier", default="quick")
    ap.add_argument("--all-props", action="store_true")
    ap.add_argument("--demo", action="store_true")
    ap.add_argument("--suite", action="store_true", help="also run the repository's test-suite on the changed copy")
    ap.add_argument("--out", default=os.path.join(HERE, "seeded", "results.json"))
    a = ap.parse_args()
    only = set(filter(None, a.only.split(",")))
    rows = []
    for sid in sorted(os.listdir(os.path.join(HERE, "seeded"))):
        d = os.path.join(HERE, "seeded", sid)
        if not os.path.isdir(d) or (only and sid not in only):
            continue
        meta = json.load(open(os.path.join(d, "meta.json")))
        tmp = tempfile.mkdtemp(prefix="seedeval-")
        try:
            for sub in ("inferno", "test"):
                shutil.copytree(os.path.join("/repo", sub), os.path.join(tmp, sub), ignore=shutil.ignore_patterns("__pycache__"))
            row = {"seed": sid, "property": meta["property"], "checks": {}}
            env = dict(os.environ, PYTHONPATH=tmp, PYTHONDONTWRITEBYTECODE="1")
            if a.demo:
                r0 = sh(["/venv/bin/python", os.path.join(d, "demo.py")], cwd=tmp, env=env)
                row["demo_on_unchanged_exit"] = r0.returncode
            r = sh(["git", "apply", "--unsafe-paths", f"--directory={tmp}", os.path.join(d, "patch.diff")], cwd="/")
            if r.returncode != 0:
                r = sh(["patch", "-p1", "-d", tmp, "-i", os.path.join(d, "patch.diff")])
            if r.returncode != 0:
                row["error"] = "patch does not apply: " + (r.stderr or r.stdout)[-300:]
                rows.append(row)
                print(sid, row["error"])
                continue
            if a.demo:
                r1 = sh(["/venv/bin/python", os.path.join(d, "demo.py")], cwd=tmp, env=env)
                row["demo_with_change_exit"] = r1.returncode
            if a.suite:
                rs = sh(["/venv/bin/python", "-m", "pytest", "-q", "-p", "no:cacheprovider", "-rf", "--timeout=900", "test"], cwd=tmp, env=env)
                row["suite_tail"] = rs.stdout.strip().splitlines()[-1] if rs.stdout.strip() else rs.stderr[-200:]
                failed = [l.split(" ")[1] for l in rs.stdout.splitlines() if l.startswith("FAILED ")]
                # randomised tests fail now and then on the unchanged tree too: a failure counts only if it persists
                persistent = []
                for tid in failed:
                    again = [sh(["/venv/bin/python", "-m", "pytest", "-q", "-p", "no:cacheprovider", tid], cwd=tmp, env=env).returncode for _ in range(3)]
                    if all(rc != 0 for rc in again):
                        persistent.append(tid)
                row["suite_failed_once"] = failed
                row["suite_failed_persistently"] = persistent
                row["suite_tail"] += f" | persistent failures: {persistent or 'none'}"
            props = ALL if a.all_props else [meta["property"]] + [p for p in meta.get("also_check", [])]
            for pid in props:
                t0 = time.time()
                e2 = dict(os.environ, VERIF_REPO=tmp, VERIF_REPLAY_DIR=os.path.join(tmp, "replays"))
                rc = sh([os.path.join(HERE, "check"), pid, "--tier", a.tier, "--no-evidence"], env=e2)
                mechs = [l.strip()[len("unlisted mechanism="):] for l in rc.stdout.splitlines() if l.strip().startswith("unlisted mechanism=")]
                row["checks"][pid] = {"exit": rc.returncode, "detected": rc.returncode == 1, "mechanisms": mechs[:3],
                                      "wall_s": round(time.time() - t0, 1)}
            det = [p for p, v in row["checks"].items() if v["detected"]]
            print(f"{sid:28s} property={meta['property']} detected_by={det or 'NONE'} "
                  f"demo={row.get('demo_on_unchanged_exit', '-')}/{row.get('demo_with_change_exit', '-')} {row.get('suite_tail', '')}")
            rows.append(row)
        finally:
            shutil.rmtree(tmp, ignore_errors=True)
    if not only or "--out" in sys.argv:
        json.dump(rows, open(a.out, "w"), indent=1)
    return 0


if __name__ == "__main__":
    sys.exit(main())
