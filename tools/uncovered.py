#!/usr/bin/env python3
"""Print the source of anchored lines no shard executed, from evidence/<id>.json (worklist for new workloads)."""
import json, os, sys
V = os.path.realpath(os.path.join(os.path.dirname(__file__), ".."))
repo = os.environ.get("VERIF_REPO", "/repo")
for pid in sys.argv[1:]:
    ev = json.load(open(os.path.join(V, "evidence", pid + ".json")))
    for name, d in ev["coverage"]["anchor_line_coverage"]["mechanisms"].items():
        for item in d.get("unexecuted", []):
            rel, rng = item.split(":")
            src = open(os.path.join(repo, rel)).read().split("\n")
            print(f"== {pid} [{name}] {rel}")
            for part in rng.split(","):
                lo, _, hi = part.partition("-")
                for ln in range(int(lo), int(hi or lo) + 1):
                    print(f"  {ln}: {src[ln-1]}")
