#!/usr/bin/env python3
"""Import a sub-agent's deliverables (<src>/seed/{patch.diff,demo.py,notes.md}) into /verif/seeded/<id>/."""
import json, os, shutil, sys
here = os.path.realpath(os.path.join(os.path.dirname(__file__), ".."))
prop, src, sid, needs = sys.argv[1], sys.argv[2], sys.argv[3], sys.argv[4]
also = sys.argv[5].split(",") if len(sys.argv) > 5 and sys.argv[5] else []
dst = os.path.join(here, "seeded", sid)
os.makedirs(dst, exist_ok=True)
for f in ("patch.diff", "demo.py", "notes.md"):
    shutil.copy(os.path.join(src, "seed", f), os.path.join(dst, f))
meta = {"property": prop, "origin": "written by a sub-agent that was given only the property text and its own scratch worktree",
        "needs_to_manifest": needs, "also_check": also,
        "verified_by_me": "tools/seed_eval.py --demo --suite: patch applies to /repo HEAD, demo exits 0 on the unchanged tree and non-zero with the change, repository test-suite passes with the change (apart from the baseline-flaky tests); see seeded/results.json"}
json.dump(meta, open(os.path.join(dst, "meta.json"), "w"), indent=1)
print("imported", sid)
